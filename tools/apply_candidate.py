import json, sys, os
name, root = sys.argv[1], sys.argv[2]
here = os.path.dirname(os.path.dirname(os.path.abspath(__file__)))
cands = json.load(open(os.path.join(here, 'mutants', 'candidates.json')))['mutants']
m = next(c for c in cands if c['name'] == name)
p = os.path.join(root, m['file'])
s = open(p).read()
if s.count(m['old']) != 1:
    sys.exit('pattern occurs %d times' % s.count(m['old']))
open(p, 'w').write(s.replace(m['old'], m['new']))
