#!/venv/bin/python
"""Regenerate /verif/MANIFEST.json from the table below (kept in one place so that it stays valid)."""
import json, os, importlib, sys
HERE = os.path.dirname(os.path.dirname(os.path.abspath(__file__)))
sys.path.insert(0, HERE)

# id -> (category, technique, text, note, design_ref)
CHECKS = {
    'C01': ('exploration', 'bounded exhaustive enumeration of time-only programs on the real kernel vs. an arithmetic clock model',
            'Every program of a small grammar of timed waits (all equal/zero/past/infinite date collisions, 3 start times, '
            'scope.do(after/at), until(date)) is executed on the real loop; each operation must start and end exactly at the '
            'time an independent clock model predicts, the clock must never decrease and no queued work may be skipped.',
            'Trusts the 90-line clock model and the VLoop observer; values outside {-1,0,1,2,inf} and more than 3 activities are not explored.',
            'DESIGN.md section 3 C01'),
}
CHECKS['C09'] = ('fault_enumeration', 'exhaustive fault injection (cancel at every activation boundary, swept until-interrupt/close) into enumerated lock programs on the real kernel vs. a FIFO lock model',
    'All programs of 2-3 contenders on one Lock (same-turn arrivals, re-requests, nesting) are executed fault-free and with a cancel injected at every activation '
    'boundary of every contender, plus until-interrupts and forceful closes swept over every queue position; a 40-line FIFO lock model driven by the '
    'request/enter/leave records must agree on every entry, every `available` probe and on the lock being free at the end.',
    'Trusts the lock model and the log bracketing of the DSL interpreter; one lock, <= 3 contenders, <= 2 injected faults.',
    'DESIGN.md section 3 C09')
CHECKS['C10'] = ('fault_enumeration', 'exhaustive fault injection (cancel at every activation boundary, swept until-interrupt/close, swept close moment) into enumerated producer/consumer programs on the real Queue vs. a list model',
    'All programs of 1-2 producers and 1-3 consumers (single gets, iteration) on one Queue, closed at a chosen or swept moment and finally drained, are executed '
    'fault-free and with one injected cancel / until-interrupt / forceful close at every boundary resp. queue position of every participant; a list model demands '
    'exactly-once delivery, put order, waiter order, timely delivery and the close semantics on every execution.',
    'Trusts the list-model oracle and the DSL log; one queue, <= 2x2 items, <= 3 consumers, one injected fault.',
    'DESIGN.md section 3 C10')
CHECKS['C12'] = ('fault_enumeration', 'exhaustive fault injection (cancel at every activation boundary, swept until-interrupt/close/close-all) into enumerated borrow/claim programs on the real resources, conservation bounds checked at every activation boundary',
    'All programs of 1-3 borrowers/claimants (+ increase/decrease/set helper) on Capacities and Resources are executed fault-free and with one injected cancel / '
    'until-interrupt / forceful close (of one or of all users) at every boundary resp. queue position; after EVERY activation the real levels must satisfy '
    'supply - in_flight <= available <= supply - held and be non-negative, claims must never wait and fail exactly when unavailable, and at quiescence everything is back.',
    'Trusts the phase bracketing of the DSL (acquiring/held/releasing/gone) and the arithmetic of the oracle; a block left abnormally may hand back until the end of that time step.',
    'DESIGN.md section 3 C12')
CHECKS['C06'] = ('fault_enumeration', 'exhaustive injection of 1-2 cancel() calls at every activation boundary of a victim task on the real kernel; status automaton sampled at every boundary, result identity across awaiters',
    'For every payload shape, start option and awaiter arrangement, cancel() is called at every activation boundary of the execution (before start, at each suspension, '
    'after completion) once and twice; the status sampled after EVERY activation must be a word of CREATED* RUNNING* FINAL+, all awaiters must get the identical value/exception '
    'object at the right time, a cancel of a not-started task must prevent its code, a cancel of a suspended task must be raised inside it within the same time step, and parent/siblings must be undisturbed.',
    'Trusts the lifecycle oracle in vk/checks/c06.py; one victim, <= 2 awaiters, <= 2 cancels.',
    'DESIGN.md section 3 C06')
CHECKS['C04'] = ('fault_enumeration', 'exhaustive fault injection (cancel of owner/children at every activation boundary, swept close/until-interrupt of the owner) into enumerated scope trees on the real kernel; descendant monitor over the whole log',
    'All scope trees of the grammar (15 child shapes incl. nested scopes, late spawners, children spawning in their finally, volatile tickers; 6 bodies; Scope/until blocks; outsiders spawning '
    'into the block) are executed fault-free and with a cancel at every activation boundary of the owner or any child and with the owner closed/interrupted at every queue position; '
    'after the block-left record no record of any descendant may follow, every accepted child must be done, normal exits must have completed every non-volatile child, volatile children are closed last, late spawns are refused.',
    'Trusts the log bracketing and the static descendant computation; <= 3 children per scope, nesting 2.',
    'DESIGN.md section 3 C04')
CHECKS['C05'] = ('fault_enumeration', 'same exhaustive scope-tree exploration; outcome of every block compared with the outcome computed from the observed child failures',
    'On every execution of the C04 scope-tree space, each block must end in exactly the one admissible way computed from the observed list of direct-child failures and the body exception '
    '(nothing / the very body exception / Concurrent with exactly those objects by identity, order and multiplicity / the first privileged object), never contain cancellations or signals, '
    'end at the virtual time of the first failure, and abort all remaining children (containment monitor).',
    'Trusts the outcome table in vk/checks/c05.py; GeneratorExit objects are compared by type.',
    'DESIGN.md section 3 C05')
CHECKS['C08'] = ('exploration', 'complete enumeration of condition expression trees (depth <= 2) x atom valuations for the algebra, and x bounded change histories x waiters on the real kernel for the dynamics, against an independent boolean evaluator',
    'Every expression tree of depth <= 2 over 9 atoms is (i) evaluated under every valuation and clock value: bool(e), ~e, ~~e, De Morgan must agree with a 15-line evaluator; '
    '(ii)/(iii) awaited by 1-2 waiters under every change history of the bound (incl. changes reverted within the time step by another activity): a wait may only return while the evaluator says true on the real atom values read at that moment, '
    'and at the end of EVERY time step nobody may still be waiting on an expression that holds.',
    'Trusts the evaluator and the atom snapshots; depth <= 2, histories <= 2 (quick) / 3 (thorough) steps.',
    'DESIGN.md section 3 C08')
CHECKS['C07'] = ('exploration', 'bounded exhaustive enumeration of until()/run(till) programs on the real kernel vs. a clock model with leave = min(trigger, completion)',
    'Every program owner:[delay]; until(N){body}; tail with a helper changing flags/tracked values and watched tasks, for every notification kind (delay, dates past/now/future, flag set later/already/set-and-reset, ~flag, tracked comparison, task.done, a|b, a&b), '
    'every body shape incl. children and nested until with equal/earlier/later deadlines or the very same flag, plus run(till=T) over time-only programs, is executed; every operation must start/end/abort exactly when the clock model says '
    '(block leaves at the earlier of trigger and completion, ties open), the block never raises its own signal, no child code runs after the leave, the tail is undisturbed, nothing runs later than till.',
    'Trusts vk/clockmodel.py; trigger times of value-based notifications are read from the observed order of helper records. One open known finding (until(connective) false on entry).',
    'DESIGN.md section 3 C07')
CHECKS['C11'] = ('fault_enumeration', 'exhaustive fault injection (cancel at every activation boundary of every consumer, swept until-interrupt/close, swept close moment) into enumerated producer/consumer programs on the real Channel vs. per-consumer expected sequences',
    'All programs of 1-2 producers and 1-3 consumers (fast/slow/leaving iteration, single await, late subscription) on one Channel are executed fault-free and with one injected cancel / until-interrupt / close on any consumer at every boundary resp. queue position; '
    'each consumer must receive exactly the puts between its subscription and its leave, once, in put order, at the right time; consumers that were not hit receive everything; close semantics are checked.',
    'Trusts the sequence oracle in vk/checks/c11.py; one channel, <= 2x2 messages, <= 3 consumers, one fault.',
    'DESIGN.md section 3 C11')
CHECKS['C13'] = ('fault_enumeration', 'exhaustive fault injection (cancel at every activation boundary, until-interrupt/close at every queue position and at fractional times) into enumerated transfer programs on the real Pipe vs. an exact rational processor-sharing model',
    'All programs of 1-3 activities with 1-2 sequential transfers each (volumes 0/1/2/4, limits none/1/4, start offsets 0/1/2) on pipes of throughput 1/2/3/inf and on UnboundedPipe are executed fault-free and with one injected cancel / until-interrupt / close on every transferring activity; '
    'every completed transfer must end at the time a processor-sharing fluid model in rational arithmetic computes from the observed start and abort times (so an aborted transfer must free its bandwidth at once), and a probe transfer afterwards sees an idle pipe.',
    'Trusts the 80-line fluid model; tolerance 1e-9 relative; values from a small dyadic-friendly alphabet.',
    'DESIGN.md section 3 C13')
CHECKS['C14'] = ('exploration', 'bounded exhaustive enumeration of interval()/delay() loops (periods x body-duration sequences x start times x placements) on the real kernel vs. an arithmetic tick model',
    'Every loop over interval(p)/delay(p) for p in {0,1,2,0.5,-1}, every sequence of <= 3/4 body durations from {none,instant,1,2,3}, three start times, iterator created early or not, alone / next to a second ticker / inside until(delay) is executed; '
    'tick times, yielded values, IntervalExceeded (exactly when a body run exceeded the period), ValueError for negative periods and the loop end must equal the arithmetic model, and every iteration step must suspend at least once (FIFO monitored) before the next body.',
    'Trusts the 25-line tick model; grid origin = start of iteration.',
    'DESIGN.md section 3 C14')
CHECKS['C16'] = ('fault_enumeration', 'bounded exhaustive enumeration of collect()/first() calls (durations x results x failures x count x consumer) with the caller cancelled at every activation boundary, vs. a sort-by-completion model',
    'Every assignment of durations {0,1,2}, results and <= 2 failures to <= 3/4 activities (incl. an activity that itself collects), every count in {0..n+1, None, default} and three consumer behaviours is executed, fault-free and with the caller cancelled at every activation boundary; '
    'collect must return all results in argument order at the slowest time or raise Concurrent of exactly the failures at the first failure time; first must yield the earliest finishers in completion order at max(completion, consumer ready), stop after k, raise ValueError for k > n; '
    'and no record of any aborted activity (or its sub-activities) may follow the end of the call.',
    'Trusts the model in vk/checks/c16.py; one open known finding (failure while the consumer of first() is in its loop body).',
    'DESIGN.md section 3 C16')
CHECKS['C20'] = ('exploration', 'complete enumeration of the (operation, immediately-completable state) table x competitors x actor position on the real kernel; activation-span monitor',
    'For every operation the property lists and every state in which it can complete without waiting (59 rows, ~120 judged operations), next to 1 and 2 competing runnable activities and with the actor spawned first and last, '
    'the operation must span at least two activations of the loop (whose FIFO order is monitored on every execution) or advance the clock, and every competitor that is queued at that moment must get a turn before it completes.',
    'Completeness of the table is by construction from the property text and the anchors; rows for a closed-and-empty stream and a free Lock are deliberately absent.',
    'DESIGN.md section 3 C20')
CHECKS['C03'] = ('fault_enumeration', 'exhaustive fault injection (cancel at every activation boundary of every live task, swept until-interrupt/close) into the strided union corpus of all native program families plus a complete signal-race family; kernel-health monitors only',
    'Every k-th program of the families of C01, C04-C14, C16 and the complete signal-race family (waits of 9 kinds inside 0-2 nested until blocks of 7 notification kinds) is executed fault-free and with one (thorough: two) injected cancel at every activation boundary of every live task and with every top-level task closed/interrupted at every queue position; '
    'run() may only end with nothing or an exception object scenario code created, scenario code may only observe its own exceptions, a requested CancelTask of that very task, or the signal of a scope open in that activity, no internal assertion/attribute/coroutine-misuse error may appear, activations per time step are bounded, clock and FIFO monitors must be silent.',
    'Monitors only (no model). Two open known findings (first() leaking its scope signal; closed task iterating an externally held interval()/delay() iterator).',
    'DESIGN.md section 3 C03')
CHECKS['C02'] = ('model_checking', 'explicit-state BFS over the two real wait-queue classes against a reference; differential execution of an enumerated corpus under 10 interpreter configurations (wait-queue backend, -O, hash seeds, heap perturbation, cyclic collector never / after every activation) and under all iteration orders of injected unordered containers',
    '(a) all push/pop sequences over 8 keys to depth 10/12 are applied in lock-step to HQWaitQueue, SDWaitQueue and a dict reference; visited states are keyed by canonical content plus the heap layout plus every other attribute of both real queue objects (hidden state such as caches); (b) every corpus program (strided union of all native families), fault-free and with a cancel at every activation boundary, '
    'is executed in fresh processes under {heap, SD} x {debug, -O} x PYTHONHASHSEED {0,1,2} x 3 heap-perturbation patterns x cyclic collector never / after every activation and the full log/activation digests must be identical; (c) set/frozenset/WeakSet constructed by usim code are replaced by containers whose iteration order the explorer chooses (all orders up to 3 elements) and the digests must not depend on it; '
    'the FIFO order of the loop is monitored on every execution of every check.',
    'Address-dependent layout itself is not enumerable; its effect (iteration order) is. Set literals would escape the injection and are listed by an AST scan in the evidence (none today).',
    'DESIGN.md section 3 C02')
CHECKS['C17'] = ('exploration', 'complete enumeration of (multiset of child failure types, handler specialisation, matching mechanism) over a class hierarchy vs. a reference predicate',
    'Over a hierarchy with subclass relations, equally named distinct classes and nested Concurrent types, every multiset of <= 3 children x every handler of <= 3 types (with/without ...) and bare Concurrent x {isinstance, issubclass, real except clause} (about 390k combinations per iteration-order policy) is compared with a reference predicate written from the statement; '
    'class identity under permutation/duplication, Concurrent[A,B] is Concurrent[B,A], and flattened() leaf order are checked; everything is repeated with the specialisation frozenset iterating forwards, backwards and with neighbouring containers in opposite directions.',
    'The reference predicate is the specification. One open known finding: the except clause ignores __subclasscheck__ (CPython), in the direction rule-says-match/not-caught only.',
    'DESIGN.md section 3 C17')
CHECKS['C15'] = ('model_checking', 'exhaustive enumeration of run histories on one thread, and stateless exploration of ALL interleavings (bounded preemptions) of real OS threads running simulations under a controlled scheduler',
    '(a) every sequence of <= 3/4 runs over 22 kinds (ok, failing with 4 exception types, leaking truthy/falsy values, blocked for ever, 8 till shapes, a child cancelled when it finishes, nested ok/failing/leaking) is executed and time.now must raise outside every run, exceptions must be re-raised by identity, leaks reported, roots started in order at start, runs end only at quiescence, outer simulations are undisturbed by nested ones; '
    '(b) 2-3 real threads each run a simulation while a baton-passing scheduler owns every switch (points after every activation and around StateHandler.assign); all schedules within the preemption bound are enumerated (DFS over choice prefixes) and every thread must log exactly what it logs alone and see no simulation afterwards.',
    'Switches only at the modelled points; no free-running race detection. states = complete schedules, transitions = scheduling decisions.',
    'DESIGN.md section 3 C15')
CHECKS['C19'] = ('model_checking', 'explicit-state BFS over operation histories per resource type with state deduplication on the reference model state; every transition executed on the real usim.py resource and compared with a sequential reference model',
    'For 15 resource configurations (Container, Store, PriorityStore, FilterStore, Resource, PriorityResource, PreemptiveResource) all histories of one operation per time step (put/get/request with every argument, cancel of every pending request, release of every user) are explored breadth-first to depth 4/5 with deduplication on the complete model state; '
    'each transition is replayed on the real resource with every operation issued by its own SimPy process, and level/items/users/queues/grants/preemption details must equal the reference model; from every reachable state every ordered pair of operations is also issued within one time step and capacity, conservation, exactly-once hand-out and no-grantable-head-left-waiting are checked.',
    'The reference models are the specification (request-triggered service, strict FIFO heads, filter scan, (priority,time,not preempt) order, head-of-queue preemption). A cancel only removes a request.',
    'DESIGN.md section 3 C19')
CHECKS['C18'] = ('model_checking', 'explicit-state exploration of a nondeterministic reference interpreter of the SimPy semantics (all orders of enabled steps inside a time step, state deduplication); every enumerated program is executed on the real usim.py layer and its outcome must be a member of the model\'s outcome set',
    'For every program of the grammar (2-3 processes, 6 families: events incl. double triggers and events fired before they are waited for, interrupts, AllOf/AnyOf, sub-processes incl. generators that never yield, callback-chained events, yielded native delays/flags/coroutines; until in {None, 0, 2, event, process}; standalone and embedded next to native activities) '
    'the reference interpreter is explored exhaustively over all interleavings of enabled steps within each virtual time (visited-state set), giving the set of admissible outcomes (value/exception and time of every process step, result of run, final clock); the real implementation\'s outcome must be in that set, and every callback must have run exactly once.',
    'The reference interpreter (vk/checks/c18.py: Interp) is the specification; it leaves open only the order of simultaneously enabled steps. states/transitions are those of the model; every program is one implementation trace validated against it.',
    'DESIGN.md section 3 C18')
PENDING = {}

def main():
    props = [json.loads(l) for l in open(os.path.join(HERE, 'properties.jsonl'))]
    checks = []
    na = []
    for p in props:
        pid = p['id']
        if pid in CHECKS:
            cat, tech, text, note, ref = CHECKS[pid]
            checks.append({
                'property_id': pid,
                'quick_cmd': 'bin/vcheck %s --tier quick' % pid,
                'thorough_cmd': 'bin/vcheck %s --tier thorough' % pid,
                'evidence_file': '/verif/evidence/%s.json' % pid,
                'replay_cmd_template': 'bin/vcheck replay {path}',
                'engine': 'vk',
                'level_claimed': {'category': cat, 'text': text, 'design_ref': ref},
                'level_note': note,
                'technique': tech,
            })
        else:
            na.append({'property_id': pid, 'reason': PENDING.get(pid, 'check not built yet in this session (planned, see DESIGN.md section 3); not claimed until it exists')})
    manifest = {
        'version': 1,
        'setup_cmd': 'bin/vcheck selftest',
        'hooks': {
            'guard': 'USIM_VERIF',
            'enable': 'no source hooks: checks import /repo directly (PYTHONPATH) and replace the module global usim._Loop by an observing subclass; USIM_VERIF=1 is set by bin/vcheck but nothing in /repo reads it',
            'baseline_off_cmd': 'cd /repo && /venv/bin/python -m pytest -q -p no:cacheprovider --timeout=900',
            'source_commits': [],
            'add_only': True,
        },
        'engines': [{
            'name': 'vk', 'path': '/verif/vk',
            'serves_properties': sorted(CHECKS),
            'kind_free_text': 'hand-written stateless explicit-execution explorer for the real usim kernel: scenario DSL -> real coroutines, '
                              'observing Loop subclass, fault injection at every activation boundary, reference models as oracles, 16 forked workers',
        }],
        'checks': checks,
        'not_applicable': na,
        'notes': 'All checks run /venv/bin/python against the working tree of /repo (or VERIF_REPO); nothing is built. See DESIGN.md.',
    }
    json.dump(manifest, open(os.path.join(HERE, 'MANIFEST.json'), 'w'), indent=1)
    import jsonschema
    jsonschema.validate(manifest, json.load(open('/root/.vp/MANIFEST.schema.json')))
    print('MANIFEST.json: %d checks, %d not claimed' % (len(checks), len(na)))

if __name__ == '__main__':
    main()
