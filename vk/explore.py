"""Exploration driver: deterministic enumeration -> 16 forked workers -> verdicts -> evidence/replays.

A check module provides
    PROPERTY, LEVEL, RULE, ASSUMPTIONS, BOUNDS(tier) -> dict
    cases(tier) -> list of JSON-serialisable cases (deterministic, simplest first)
    explore_case(case, tier) -> {'execs': int, 'nontrivial': int, 'outcomes': {key: n},
                                 'viol': [{'faults': [...], 'msgs': [...]}], 'counters': {...}}
    replay(case, faults) -> list of messages (empty: no violation)
    MATCHERS = {matcher name: fn(case, faults, msgs) -> bool}     (known findings, optional)
"""
import collections
import hashlib
import importlib
import json
import multiprocessing
import os
import re
import subprocess
import sys
import time as wall

VERIF = os.path.dirname(os.path.dirname(os.path.abspath(__file__)))
KNOWN_FILE = os.path.join(VERIF, 'known_findings.json')
MAX_VIOLATIONS = 5
ADDR = re.compile(r'0x[0-9a-fA-F]+|@ ?\d{6,}')
CASE_TIMEOUT = int(os.environ.get('VERIF_CASE_TIMEOUT', '300'))

_STATE = {}


def load_known(prop):
    try:
        data = json.load(open(KNOWN_FILE))
    except FileNotFoundError:
        return []
    return [f for f in data.get('open', []) if f['property'] == prop]


def classify(mod, known, case, faults, msgs):
    matchers = getattr(mod, 'MATCHERS', {})
    for f in known:
        fn = matchers.get(f['matcher'])
        if fn is not None and fn(case, faults, msgs):
            return f['id']
    return None


def _worker(span, skip=(), progress=None):
    lo, hi, selfcheck, stride = span
    mod, tier, cases, known = _STATE['mod'], _STATE['tier'], _STATE['cases'], _STATE['known']
    from . import run as vrun
    rep = {'execs': 0, 'nontrivial': 0, 'outcomes': collections.Counter(), 'viol': [],
           'known': collections.Counter(), 'counters': collections.Counter(), 'cases': 0,
           'selfcheck': None, 'samples': [], 'states': set(), 'transitions': set()}
    import signal
    from .kernel import Runaway

    def on_alarm(signum, frame):
        raise Runaway('watchdog', 'one case took more than %d s of wall time' % CASE_TIMEOUT)
    signal.signal(signal.SIGALRM, on_alarm)
    for i in range(lo, hi, stride):
        case = cases[i]
        if i in skip:
            rep['cases'] += 1         # (the interpreter died on this case before: reported by the driver)
            continue
        if progress is not None:
            progress[0][progress[1]] = i
        signal.alarm(CASE_TIMEOUT)
        try:
            r = mod.explore_case(case, tier)
        except Runaway as w:
            r = {'execs': 1, 'nontrivial': 0, 'viol': [{'faults': [], 'msgs': ['%s: %s' % (w.kind, w.detail)]}]}
        finally:
            signal.alarm(0)
        rep['cases'] += 1
        rep['execs'] += r['execs']
        rep['nontrivial'] += r['nontrivial']
        rep['outcomes'].update(r.get('outcomes', {}))
        rep['counters'].update(r.get('counters', {}))
        for st in r.get('states', ()):
            rep['states'].add(st)
        for tr in r.get('transitions', ()):
            rep['transitions'].add(tr)
        for v in r['viol']:
            v['msgs'] = [ADDR.sub('#', str(m)) for m in v['msgs']]
            fid = classify(mod, known, case, v['faults'], v['msgs'])
            if fid is not None:
                rep['known'][fid] += 1
            elif len(rep['viol']) < MAX_VIOLATIONS:
                rep['viol'].append({'index': i, 'case': case, 'faults': v['faults'], 'msgs': v['msgs']})
        if ((i - lo) // stride) % 64 == 0:
            vrun.collect_garbage()
    if selfcheck:
        # proof of owned nondeterminism: re-run the first cases, demand identical reports
        bad = 0
        for i in range(lo, min(hi, lo + selfcheck * stride), stride):
            if i in skip:
                continue
            a = ADDR.sub('#', json.dumps(mod.explore_case(cases[i], tier), sort_keys=True, default=repr))
            b = ADDR.sub('#', json.dumps(mod.explore_case(cases[i], tier), sort_keys=True, default=repr))
            if a != b:
                bad += 1
        rep['selfcheck'] = bad
    rep['outcomes'] = dict(rep['outcomes'])
    rep['known'] = dict(rep['known'])
    rep['counters'] = dict(rep['counters'])
    rep['states'] = list(rep['states'])
    rep['transitions'] = list(rep['transitions'])
    return rep


def _proc_main(wid, task_q, result_q, progress):
    """one explorer process: takes spans until it is terminated"""
    import traceback
    while True:
        span, skip = task_q.get()
        result_q.put(('start', wid, span, list(skip)))
        try:
            r = _worker(tuple(span), skip=frozenset(skip), progress=(progress, wid))
            progress[wid] = -1
            result_q.put(('ok', wid, span, r))
        except BaseException as e:      # noqa
            progress[wid] = -1
            result_q.put(('err', wid, span, '%r\n%s' % (e, traceback.format_exc())))


def explore_spans(order, workers):
    """Run the spans in `workers` forked processes. A process that dies (the interpreter aborts, e.g. out of memory inside one
    activation) does not take the run with it: the case it was exploring is reported as a violation of its own, the rest of
    its span is explored by a fresh process."""
    import queue as _queue
    ctx = multiprocessing.get_context('fork')
    task_q, result_q = ctx.Queue(), ctx.Queue()
    progress = ctx.Array('q', [-1] * workers, lock=False)
    for sp in order:
        task_q.put((list(sp), []))
    procs = {}

    def spawn(wid):
        p = ctx.Process(target=_proc_main, args=(wid, task_q, result_q, progress), daemon=True)
        p.start()
        procs[wid] = p
    for wid in range(workers):
        spawn(wid)
    outstanding = len(order)
    holding = {}            # wid -> span it is working on
    reports, crashes, errors = [], [], []
    try:
        while outstanding:
            try:
                kind, wid, span, payload = result_q.get(timeout=0.5)
            except _queue.Empty:
                for wid, p in list(procs.items()):
                    if p.exitcode is not None and wid in holding:
                        span, skip = holding.pop(wid)
                        i = progress[wid]
                        progress[wid] = -1
                        if i < 0:
                            errors.append('explorer process %d died (exit code %r) outside any case' % (wid, p.exitcode))
                            outstanding -= 1
                        else:
                            crashes.append((i, p.exitcode))
                            if len(crashes) >= MAX_VIOLATIONS:
                                return reports, crashes, errors
                            task_q.put((span, sorted(set(skip) | {i})))
                        spawn(wid)
                    elif p.exitcode is not None:
                        spawn(wid)
                continue
            if kind == 'start':
                holding[wid] = (span, payload)       # payload: the cases of this span that are skipped already
                continue
            holding.pop(wid, None)
            outstanding -= 1
            if kind == 'ok':
                reports.append(payload)
            else:
                errors.append('explorer process failed on span %r: %s' % (span, payload))
    finally:
        for p in procs.values():
            if p.is_alive():
                p.terminate()
        for p in procs.values():
            p.join(timeout=5)
    return reports, crashes, errors


def case_hash(case, faults):
    return hashlib.sha1(json.dumps([case, faults], sort_keys=True, default=repr).encode()).hexdigest()[:12]


def confirm(prop, path):
    """Re-execute a replay file twice in fresh processes; all runs must agree that it violates."""
    verdicts = []
    for _ in range(2):
        p = subprocess.run([sys.executable, '-m', 'vk.main', 'replay', path], cwd=VERIF,
                           capture_output=True, text=True, env=os.environ)
        verdicts.append(p.returncode)
    return verdicts


def run_check(modname, tier, seed):
    from . import run as vrun
    t0 = wall.time()
    mod = importlib.import_module('vk.checks.' + modname)
    prop = mod.PROPERTY
    vrun.setup_process()
    if hasattr(mod, 'selftest'):
        mod.selftest()
    cases = mod.cases(tier)
    n = len(cases)
    import gc
    gc.collect()
    gc.freeze()      # the (large) case list is immortal: keep it out of the per-batch collections of the workers
    known = load_known(prop)
    _STATE.update(mod=mod, tier=tier, cases=cases, known=known)
    workers = int(os.environ.get('VERIF_WORKERS', '16'))
    # strided shards: shard k explores cases k, k+S, k+2S, ... so that cheap and expensive programs mix evenly
    nshards = max(1, min(n, workers * 6))
    spans = [[k, n, 0, nshards] for k in range(nshards)]
    size = -(-n // nshards) if n else 0
    if spans:
        spans[0][2] = min(20, size)
    # the seed only rotates the order in which shards are handed out and which samples are kept
    rot = seed % len(spans) if spans else 0
    order = spans[rot:] + spans[:rot]
    total = {'execs': 0, 'nontrivial': 0, 'outcomes': collections.Counter(), 'viol': [],
             'known': collections.Counter(), 'counters': collections.Counter(), 'cases': 0,
             'states': set(), 'transitions': set()}
    selfcheck_bad = None
    crashes = []
    if workers > 1 and n > 1:
        reports, crashes, errs = explore_spans(order, workers)
        if errs:
            for e in errs:
                print('HARNESS-ERROR: ' + e[:2000])
            return 2
    else:
        reports = [_worker(tuple(s)) for s in order]
    for i, code in crashes:
        total['viol'].append({'index': i, 'case': cases[i], 'faults': {'crash': code},
                              'msgs': ['the interpreter died (exit code %r) while this case was explored' % (code,)]})
    for rep in reports:
        total['execs'] += rep['execs']
        total['nontrivial'] += rep['nontrivial']
        total['cases'] += rep['cases']
        total['outcomes'].update(rep['outcomes'])
        total['known'].update(rep['known'])
        total['counters'].update(rep['counters'])
        total['viol'].extend(rep['viol'])
        total['states'].update(map(tuple, rep['states']) if rep['states'] and isinstance(rep['states'][0], list) else rep['states'])
        total['transitions'].update(map(tuple, rep['transitions']) if rep['transitions'] and isinstance(rep['transitions'][0], list) else rep['transitions'])
        if rep['selfcheck'] is not None:
            selfcheck_bad = rep['selfcheck']
    if total['cases'] != n and len(crashes) < MAX_VIOLATIONS:
        print('HARNESS-ERROR: explored %d of %d cases' % (total['cases'], n))
        return 2
    if selfcheck_bad:
        print('HARNESS-ERROR: %d executions were not reproducible' % selfcheck_bad)
        return 2
    total['viol'].sort(key=lambda v: v['index'])
    violations = total['viol'][:MAX_VIOLATIONS]
    status = 0
    replay_root = os.environ.get('VERIF_REPLAY_DIR') or os.path.join(VERIF, 'replays')
    os.makedirs(os.path.join(replay_root, prop), exist_ok=True)
    for fid, count in sorted(total['known'].items()):
        what = next(f['what'] for f in known if f['id'] == fid)
        print('KNOWN-FINDING: property=%s %s [%s, %d executions]' % (prop, what, fid, count))
    unconfirmed = []
    for v in violations:
        h = case_hash(v['case'], v['faults'])
        path = os.path.join(replay_root, prop, h + '.json')
        with open(path, 'w') as fh:
            json.dump({'property': prop, 'check': modname, 'tier': tier, 'case': v['case'],
                       'faults': v['faults'], 'messages': v['msgs']}, fh, indent=1, default=repr)
        verdicts = confirm(prop, path)
        if verdicts != [1, 1]:
            # Not believed: it shows only after some earlier execution in the same worker process (state leaking from
            # one execution into the next, e.g. a coroutine that survived its close). The execution that caused it is
            # reported on its own if it violates; if nothing confirmed remains, the run ends as a harness error.
            unconfirmed.append((path, verdicts))
            continue
        for m in v['msgs'][:3]:
            print('  ' + str(m)[:300])
        print('VIOLATION property=%s replay=%s' % (prop, path))
        status = 1
    if unconfirmed and status == 0:
        for path, verdicts in unconfirmed[:5]:
            print('HARNESS-ERROR: replay of %s did not reproduce (exit codes %r)' % (path, verdicts))
        return 2
    for path, verdicts in unconfirmed[:5]:
        print('UNCONFIRMED (not counted): replay of %s did not reproduce (exit codes %r)' % (path, verdicts))
    # samples: a few actual cases, chosen by the seed
    samples = []
    if n:
        for j in range(3):
            samples.append(cases[(seed * 7919 + j * (n // 3 + 1)) % n])
    bounds = mod.BOUNDS(tier) if hasattr(mod, 'BOUNDS') else {}
    coverage = {
        'evaluations': total['execs'],
        'distinct_nontrivial': total['nontrivial'],
        'rule': mod.RULE,
        'samples': samples,
        'programs': n,
        'exhaustive': True,
        'bounds': bounds,
        'distinct_outcomes': len(total['outcomes']),
        'outcomes': dict(sorted(total['outcomes'].items(), key=lambda kv: -kv[1])[:25]),
        'counters': dict(total['counters']),
        'known_findings_hit': dict(total['known']),
        'traces_validated_against_impl': total['execs'],
        'reproducibility_selfcheck': 'first %d cases re-run twice, identical' % spans[0][2] if spans else 'n/a',
    }
    if total['states']:
        coverage['states'] = len(total['states'])
        coverage['transitions'] = len(total['transitions'])
    if hasattr(mod, 'STATES_FROM_COUNTERS'):
        a, b = mod.STATES_FROM_COUNTERS
        coverage['states'] = total['counters'].get(a, 0)
        coverage['transitions'] = total['counters'].get(b, 0)
    if hasattr(mod, 'extra_coverage'):
        coverage.update(mod.extra_coverage(tier))
    evidence = {
        'property_id': prop, 'tier': tier, 'seed': seed, 'level': mod.LEVEL,
        'coverage': coverage, 'assumptions': list(mod.ASSUMPTIONS),
        'wall_s': round(wall.time() - t0, 2), 'violations': len(violations),
    }
    if not os.environ.get('VERIF_NO_EVIDENCE'):     # mutation runs against scratch copies write no evidence
        os.makedirs(os.path.join(VERIF, 'evidence'), exist_ok=True)
        with open(os.path.join(VERIF, 'evidence', prop + '.json'), 'w') as fh:
            json.dump(evidence, fh, indent=1, default=repr)
    print('%s %s: cases=%d executions=%d nontrivial=%d outcomes=%d known=%d violations=%d wall=%.1fs' % (
        prop, tier, n, total['execs'], total['nontrivial'], len(total['outcomes']),
        sum(total['known'].values()), len(violations), wall.time() - t0))
    return status


def replay_file(path):
    from . import run as vrun
    data = json.load(open(path))
    mod = importlib.import_module('vk.checks.' + data['check'])
    vrun.setup_process()
    if isinstance(data['faults'], dict) and 'crash' in data['faults']:
        # the interpreter died while this case was explored: explore it again in a child process of its own
        ctx = multiprocessing.get_context('fork')

        def child():
            r = mod.explore_case(data['case'], data.get('tier', 'quick'))
            os._exit(1 if r['viol'] else 0)
        p = ctx.Process(target=child)
        p.start()
        p.join(CASE_TIMEOUT * 2)
        if p.is_alive():
            p.kill()
            p.join()
        msgs = [] if p.exitcode == 0 else ['exploring this case ended the interpreter / reported a violation (exit code %r)' % (p.exitcode,)]
    else:
        msgs = mod.replay(data['case'], data['faults'])
    for m in msgs:
        print(str(m)[:500])
    if msgs:
        print('VIOLATION property=%s replay=%s' % (data['property'], path))
        return 1
    print('no violation on replay')
    return 0
