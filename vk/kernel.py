"""Seams into the real usim kernel: an observing/injecting Loop subclass and the execution context.

Nothing here changes the behaviour of usim: VLoop calls the original methods and only observes
before/after, except for the *boundary callback*, where the explorer may call public, synchronous
usim API (Task.cancel) exactly as a simulation activity could.
"""
import sys
import usim
from usim._core.loop import Loop, Interrupt
from usim._core.handler import __USIM_STATE__


class HarnessError(Exception):
    """The harness itself is broken (seam missing, replay diverged): exit code 2, never a verdict"""


class Runaway(BaseException):
    """Raised by the monitor to abort an execution that does not make progress"""
    def __init__(self, kind, detail):
        super().__init__(kind, detail)
        self.kind = kind
        self.detail = detail


class ExecTimer:
    """per-execution watchdog: an execution that does not come back within EXEC_TIMEOUT seconds of wall time (a loop inside
    one activation never reaches the activation-count monitors) is aborted with Runaway('hang')"""
    def __init__(self, seconds=None):
        import os
        self.seconds = seconds or float(os.environ.get('VERIF_EXEC_TIMEOUT', '20'))

    def __enter__(self):
        import signal
        import threading
        self.active = threading.current_thread() is threading.main_thread()
        if self.active:
            def on_alarm(signum, frame):
                raise Runaway('hang', 'one execution took more than %g s of wall time' % self.seconds)
            self.old = signal.signal(signal.SIGALRM, on_alarm)
            signal.setitimer(signal.ITIMER_REAL, self.seconds)
        return self

    def __exit__(self, *exc):
        import signal
        if self.active:
            signal.setitimer(signal.ITIMER_REAL, 0)
            signal.signal(signal.SIGALRM, self.old)
        return False


#: configuration switch of C02: run the cyclic garbage collector after every activation (default: it never runs)
GC_AT_BOUNDARIES = [False]
#: stack of active execution contexts (nested usim.run share the innermost context)
CURRENT = []
#: scheduling-point callback used by the controlled thread scheduler
THREAD_HOOK = [None]


class VLoop(Loop):
    """The real Loop, observed. Installed as ``usim._Loop`` (the global read by ``usim.run``)."""
    __slots__ = ('ctx', 'queued', 'uid', 'cur', 'cur_deque')

    def __init__(self, *coroutines, start=0):
        super().__init__(*coroutines, start=start)
        self.ctx = ctx = CURRENT[-1] if CURRENT else None
        # FIFO/clock monitor: per time key the (target, signal) pairs in queueing order
        self.queued = {start: [(c, None) for c in coroutines]}
        self.cur = []            # entries of the deque that is being drained right now
        self.cur_deque = None
        self.uid = 0
        if ctx is not None:
            self.uid = ctx.register_loop(self)

    def schedule(self, target, signal=None, *args, delay=None, at=None, **kw):
        # (further parameters a later version of Loop.schedule may have are passed through untouched: the observer models
        # "made runnable in this order", whatever options the caller gives)
        super().schedule(target, signal, *args, delay=delay, at=at, **kw)
        if self.ctx is not None:
            if delay is None and at is None:
                key = self.time
                self.cur.append((target, signal))       # joins the deque that is being drained
            else:
                # a dated activation goes to the wait queue - also if rounding makes its date equal to now
                key = self.time + delay if delay is not None else at
                self.queued.setdefault(key, []).append((target, signal))
                if at is not None:
                    self.ctx.dated[(id(target), id(signal))] = at      # an absolute date must be met exactly
            self.ctx.on_schedule(self, key, target, signal)

    def _run_coroutine(self, target, signal=None):
        ctx = self.ctx
        if ctx is None:
            super()._run_coroutine(target, signal)
            if THREAD_HOOK[0] is not None:
                THREAD_HOOK[0]('activation')       # scheduling point of the controlled thread scheduler (C15)
            return
        ctx.pre_activation(self, target, signal)
        super()._run_coroutine(target, signal)
        ctx.post_activation(self, target, signal)


def install():
    """Install the seam; verify that the pieces we rely on exist."""
    for obj, attr in ((usim, '_Loop'), (Loop, '_run_coroutine'), (Loop, 'schedule'),
                      (Loop, '_run_events'), (__USIM_STATE__, 'loop')):
        if not hasattr(obj, attr):
            raise HarnessError('HARNESS-SEAM-MISSING: %r.%s' % (obj, attr))
    if not all(s in Loop.__slots__ for s in ('time', 'turn', 'activity', '_pending', '_activations')):
        raise HarnessError('HARNESS-SEAM-MISSING: Loop slots %r' % (Loop.__slots__,))
    usim._Loop = VLoop


def sigkind(signal):
    if signal is None:
        return 'start'
    name = type(signal).__name__
    if name == 'Interrupt':
        tok = signal.token[0] if signal.token else None
        if tok == 'postpone':
            return 'wake'
        return 'notify:' + type(tok).__name__
    return name


class Ctx:
    """One execution: log, activation trace, monitors, fault injection."""

    def __init__(self, faults=(), limits=(3000, 20000), observe=None):
        self.log = []              # scenario records (kind, act, pc, time, data)
        self.log_act = []          # number of the activation during which each record was written
        self.trace = []            # activations (loop uid, time, activity name, signal kind)
        self.names = {}            # id(coroutine) -> activity name
        self.keep = []             # keep coroutines alive so that ids stay unique
        self.tasks = {}            # activity name -> Task
        self.objs = {}
        self.scopes = {}
        self.raised = []           # exception objects created by scenario code
        self.cancel_requests = []  # (task name, token, boundary) cancels requested by anyone
        self.findings = []         # monitor findings [(kind, detail)]
        self.dated = {}            # (target, signal) -> absolute date requested from Loop.schedule(at=...)
        self.loops = []
        self.faults = {}
        for f in faults:
            self.faults.setdefault(f['k'], []).append(f)
        self.fault_log = []        # what became of each fault
        self.nact = 0
        self.step_limit, self.total_limit = limits
        self.same_time = 0
        self.last_time = {}
        self.boundaries = []       # per boundary info, only when observing E0
        self.observe = observe     # callback(ctx, loop, k) at each boundary, or None
        self.closed = False

    # -- bookkeeping -------------------------------------------------------------------------
    def register_loop(self, loop):
        self.loops.append(loop)
        return len(self.loops)

    def name_of(self, coro):
        return self.names.get(id(coro)) or '~' + getattr(coro, '__qualname__', type(coro).__name__)

    def rec(self, kind, act, pc, data=None):
        if self.closed:
            return
        try:
            now = __USIM_STATE__.loop.time
        except RuntimeError:
            now = None
        self.log.append((kind, act, pc, now, data))
        self.log_act.append(self.nact)

    def on_schedule(self, loop, key, target, signal):
        pass

    # -- monitors ----------------------------------------------------------------------------
    def pre_activation(self, loop, target, signal):
        self.nact += 1
        now = loop.time
        last = self.last_time.get(loop.uid)
        if last is None or now != last:
            if last is not None:
                try:
                    backwards = now < last
                except TypeError:
                    backwards = False
                if backwards:
                    self.findings.append(('clock-decreased', (last, now)))
                # everything queued for an earlier time must have run or been revoked
                for key in [k for k in loop.queued if k < now]:
                    left = [(self.name_of(t), sigkind(s)) for t, s in loop.queued.pop(key)
                            if s is None or not s._revoked]
                    if left:
                        self.findings.append(('work-skipped', (key, now, left)))
            self.last_time[loop.uid] = now
            self.same_time = 0
        self.same_time += 1
        if self.same_time > self.step_limit:
            raise Runaway('livelock', 'more than %d activations at time %r' % (self.step_limit, now))
        if self.nact > self.total_limit:
            raise Runaway('runaway', 'more than %d activations' % self.total_limit)
        # FIFO monitor: this activation must be the oldest non-revoked entry of the deque being drained
        if loop._pending is not loop.cur_deque:
            # the loop popped the next deque from its wait queue
            left = [(self.name_of(t), sigkind(s)) for t, s in loop.cur if s is None or not s._revoked]
            if left:
                self.findings.append(('work-skipped', (now, left)))
            loop.cur_deque = loop._pending
            loop.cur = loop.queued.pop(now, None)
        entries = loop.cur
        if entries is None:
            loop.cur = []
            self.findings.append(('unqueued-activation', (now, self.name_of(target), sigkind(signal))))
        else:
            while entries:
                t, s = entries.pop(0)
                if t is target and s is signal:
                    break
                if s is None or not s._revoked:
                    self.findings.append(('fifo-order', (now, self.name_of(t), sigkind(s),
                                                         'overtaken by', self.name_of(target), sigkind(signal))))
            else:
                self.findings.append(('unqueued-activation', (now, self.name_of(target), sigkind(signal))))
        want = self.dated.pop((id(target), id(signal)), None)
        if want is not None and want != now:
            self.findings.append(('date-missed', (self.name_of(target), sigkind(signal), 'requested for', want, 'ran at', now)))
        self.trace.append((loop.uid, now, self.name_of(target), sigkind(signal)))

    def post_activation(self, loop, target, signal):
        k = self.nact
        if GC_AT_BOUNDARIES[0]:
            import gc
            gc.collect()         # the most eager collector there can be: cyclic garbage dies at the next activation boundary
        if self.loops and loop is not self.loops[0]:
            # an activation of a nested simulation (usim.run called from inside an activity): no boundary of the
            # scenario's own simulation - signalling its tasks from in here would be a misuse of the API
            return
        if self.observe is not None:
            self.observe(self, loop, k)
        for f in self.faults.get(k, ()):
            self.apply_fault(f, loop)

    def apply_fault(self, f, loop):
        kind = f['kind']
        if kind == 'cancel':
            task = self.tasks.get(f['victim'])
            if task is None:
                self.fault_log.append((f, 'no-such-task'))
                return
            status = task.status
            self.rec('inject', f['victim'], ('cancel',), {'token': f.get('token'), 'status': status, 'k': f['k']})
            self.cancel_requests.append((f['victim'], f.get('token'), f['k'], status))
            task.cancel(f.get('token'))
            self.fault_log.append((f, 'applied'))
        else:
            raise HarnessError('unknown fault kind %r' % (kind,))
