"""Subprocess of the C02 configuration product: run the corpus under the configuration of THIS interpreter
(USIM_WAITQUEUE, -O, PYTHONHASHSEED, heap perturbation, set-iteration policy) and print one digest per case."""
import json
import os
import sys


def perturb(pattern, i, keep):
    """unrelated allocations that shift heap addresses between executions (deterministic per pattern)"""
    if not pattern:
        return
    n = (pattern * 131 + i * 7) % 97 + pattern * 11
    keep.append([bytearray((j * pattern) % 257 + 1) for j in range(n)])
    keep.append([object() for _ in range((i * pattern) % 53)])
    if len(keep) > 40:
        del keep[:pattern * 3 + 1]


def main():
    tier, lo, hi, step = sys.argv[1], int(sys.argv[2]), int(sys.argv[3]), int(sys.argv[4])
    pattern = int(os.environ.get('VK_HEAP_PATTERN', '0'))
    policy = os.environ.get('VK_SET_POLICY', '')
    keep = []
    perturb(pattern, 0, keep)
    from vk import run as vrun
    from vk.checks import c02
    vrun.setup_process()
    if policy:
        from vk import choicesets
        choicesets.install(policy)
    corpus = c02.corpus(tier, os.environ.get('VK_CORPUS', 'config'))
    if os.environ.get('VK_GC'):
        # the cyclic garbage collector runs after every activation (the other configurations run with the collector
        # switched off): the two extremes of when garbage dies
        import gc
        from vk import kernel
        gc.collect()
        gc.freeze()
        kernel.GC_AT_BOUNDARIES[0] = True
    out = {}
    for i in range(lo, min(hi, len(corpus)), step):
        perturb(pattern, i, keep)
        out[i] = c02.digests_of(corpus[i])
        if i % 50 == 0:
            vrun.collect_garbage()
    json.dump(out, sys.stdout)


if __name__ == '__main__':
    main()
