"""Independent arithmetic model of when time-only scenario operations start and end.

For every operation of a program it predicts (start, natural end, deadline): the deadline is the
earliest trigger time of an enclosing until-block (inf if none).  The judge then demands
  start  > deadline : the operation never starts
  start == deadline : open (it may or may not start; if it starts it ends/aborts at that time)
  start  < deadline : it starts at `start`, and
        end  < deadline : it ends normally at `end`
        end == deadline : it ends or is aborted, at that time (tie, order unspecified)
        end  > deadline : it is aborted at the deadline (never ends if both are infinite)
"""
INF = float('inf')
NEVER = INF


class AtInf(float):
    """the operation ends when the clock reads infinity (as opposed to never)"""


AT_INF = AtInf('inf')


class Invalid(Exception):
    """The program is not a valid usim program (e.g. start date in the past)"""


def num(x):
    if isinstance(x, dict) and x.get('$') == 'frac':
        import fractions
        return fractions.Fraction(x['n'], x['d'])
    return INF if x == 'inf' else x


class Model:
    def __init__(self, program, triggers=None, resolver=None):
        self.resolver = resolver     # fn(notification, entry time, act, pc) -> trigger time, for log-dependent kinds
        self.start = program.get('start', 0)
        self.ops = {}       # (act, pc) -> (s, e, deadline)
        self.pending_children = {}
        self.pending_volatile = {}
        self.scope_keys = {}
        self.begins = {}    # act -> (start time, deadline)
        self.program = program
        self.triggers = triggers or {}   # extra notification kinds: name -> fn(t0) -> trigger time
        till = program.get('till')
        # (run(till=t) ends the run at the moment t: a date before the start time is never reached)
        deadline = INF if till is None or self.T(till) < self.start else self.T(till)
        self.ends = {}
        for name, script in program['roots']:
            self.begins[name] = (self.start, deadline)
            self.ends[name] = self.block(name, script, (), self.start, deadline)

    def T(self, t):
        return self.start + num(t)

    # natural behaviour, ignoring deadlines -----------------------------------------------------
    def trigger(self, e, t0):
        """first time >= t0 at which the notification fires or already holds; NEVER if none"""
        k = e[0]
        if k == 'C':
            return self.trigger(self.program['conds'][e[1]], t0)
        if k == 'DELAY':
            return t0 + num(e[1])
        if k == 'GE':
            return max(self.T(e[1]), t0)
        if k == 'EQ':
            return self.T(e[1]) if self.T(e[1]) >= t0 else NEVER
        if k == 'LT':
            return t0 if t0 < self.T(e[1]) else NEVER
        if k == 'INSTANT':
            return t0
        if k == 'ETERNITY':
            return NEVER
        if k in ('AND', 'OR'):
            # connectives over time atoms: the first candidate moment >= t0 at which the expression holds
            cands = sorted({t0} | {self.T(x[1]) for x in self.atoms(e) if x[0] != 'C' and self.T(x[1]) >= t0}
                           | {self.T(self.program['conds'][x[1]][1]) for x in self.atoms(e)
                              if x[0] == 'C' and self.T(self.program['conds'][x[1]][1]) >= t0})
            for t in cands:
                if self.holds(e, t):
                    return t
            return NEVER
        if k in self.triggers:
            return self.triggers[k](e, t0)
        raise ValueError(e)

    def atoms(self, e):
        if e[0] in ('AND', 'OR'):
            out = []
            for x in e[1:]:
                out += self.atoms(x)
            return out
        return [e]

    def holds(self, e, t):
        k = e[0]
        if k == 'C':
            return self.holds(self.program['conds'][e[1]], t)
        if k == 'GE':
            return t >= self.T(e[1])
        if k == 'LT':
            return t < self.T(e[1])
        if k == 'EQ':
            return t == self.T(e[1])
        if k == 'AND':
            return all(self.holds(x, t) for x in e[1:])
        if k == 'OR':
            return any(self.holds(x, t) for x in e[1:])
        raise ValueError(e)

    def block(self, act, script, path, t0, deadline):
        t = t0
        for i, op in enumerate(script):
            if t == NEVER:
                break
            pc = path + (i,)
            e = self.op(act, op, pc, t, deadline)
            self.ops[(act, pc)] = (t, e, deadline)
            t = e
        return t

    def volatile_children(self, pending, scope_end):
        for child, script, cs in pending:
            self.begins[child] = (cs, scope_end)
            self.ends[child] = self.block(child, script, (), cs, scope_end)

    def op(self, act, op, pc, s, deadline):
        k = op[0]
        if k == 'D':
            return AT_INF if num(op[1]) == INF else s + num(op[1])
        if k in ('EQ', 'GE', 'LT'):
            return self.trigger(op, s)
        if k in ('INSTANT', 'SPIN'):
            return s
        if k == 'ETERNITY':
            return NEVER
        if k == 'WAIT':
            return self.resolver(op[1], s, act, pc) if self.resolver else self.trigger(op[1], s)
        if k in ('NOP', 'PROBE', 'CANCEL', 'SET', 'TADD', 'TSET'):
            return s
        if k == 'TRY':
            return self.block(act, op[1], pc, s, deadline)
        if k == 'FINALLY':
            e = self.block(act, op[1], pc + ('t',), s, deadline)
            if e < deadline:
                # the body ended by itself: the cleanup part runs then (it may spawn into a scope that is still open)
                return self.block(act, op[2], pc + ('f',), e, deadline)
            return e
        if k in ('INTERVAL', 'DELAYLOOP'):
            period, n, bodies = op[1], op[2], op[3]
            if len(op) > 4 and op[4]:
                s = s + op[4]       # the iterator is created first, the iteration (and with it the grid) starts `pre` later
            t = s
            for i in range(n):
                tick = (s + (i + 1) * period) if k == 'INTERVAL' else (t + period)
                if t > tick:
                    return t            # IntervalExceeded is raised at once
                body = bodies[i] if i < len(bodies) else []
                t = self.block(act, body, pc + ('b', i + 1), tick, deadline)
                if t == NEVER:
                    return NEVER
            return t
        if k == 'UNTIL':
            name, notif, body = op[1], op[2], op[3]
            self.scope_keys[name] = (act, pc)
            tr = self.resolver(notif, s, act, pc) if self.resolver else self.trigger(notif, s)
            inner = min(deadline, tr)
            self.pending_children[(act, pc)] = []
            self.pending_volatile[(act, pc)] = []
            body_end = self.block(act, body, pc, s, inner)
            kids = self.pending_children.pop((act, pc))
            end = min(tr, max([body_end] + kids))
            self.volatile_children(self.pending_volatile.pop((act, pc)), min(inner, end))
            return end
        if k == 'SCOPE':
            name, body = op[1], op[2]
            self.scope_keys[name] = (act, pc)
            self.pending_children[(act, pc)] = []
            self.pending_volatile[(act, pc)] = []
            body_end = self.block(act, body, pc, s, deadline)
            kids = self.pending_children.pop((act, pc))
            end = max([body_end] + kids)
            self.volatile_children(self.pending_volatile.pop((act, pc)), min(deadline, end))
            return end
        if k == 'DO':
            child, script, opts = op[1], op[2], (op[3] if len(op) > 3 and op[3] else {})
            if opts.get('after') is not None:
                if opts['after'] < 0:
                    raise Invalid('after < 0')
                cs = s + opts['after']
            elif opts.get('at') is not None:
                cs = self.T(opts['at'])
                if cs < s:
                    raise Invalid('at in the past')
            else:
                cs = s
            # innermost enclosing scope op of this activity = longest pc prefix in pending_children
            owner = None
            if opts.get('scope') is not None:
                owner = self.scope_keys.get(opts['scope'])
                if owner not in self.pending_children:
                    return s            # the named scope has ended (or is not modelled): the spawn is refused
            else:
                for n in range(len(pc) - 1, 0, -1):
                    if (act, pc[:n]) in self.pending_children:
                        owner = (act, pc[:n])
                        break
            if owner is None:
                raise Invalid('DO outside a scope')
            if opts.get('volatile'):
                # closed when its scope ends: modelled once that time is known
                self.pending_volatile[owner].append((child, script, cs))
                return s
            self.begins[child] = (cs, deadline)
            ce = self.block(child, script, (), cs, deadline)
            self.ends[child] = ce
            self.pending_children[owner].append(ce)
            return s
        raise ValueError('clock model does not know %r' % (k,))


def judge_times(model, log, tol=0, only=None):
    """Compare the log of an execution with the clock model. Returns a list of messages.
    only: predicate(act, pc) selecting the operations to judge (default: all, and unknown records are violations)"""
    msgs = []
    seen = {}
    for idx, (kind, act, pc, now, data) in enumerate(log):
        if kind in ('start', 'end', 'exc'):
            seen.setdefault((act, pc), {})[kind] = now
    for key, rec in seen.items():
        if key not in model.ops and only is None:
            msgs.append('%s %r ran (%r) but the clock model says it is never reached' % (key[0], key[1], rec))
    for key, (s, e, dl) in model.ops.items():
        if only is not None and not only(*key):
            continue
        rec = seen.get(key, {})
        act, pc = key
        started = 'start' in rec
        if s > dl:
            if started:
                msgs.append('%s %r started at %r after its block ended at %r' % (act, pc, rec['start'], dl))
            continue
        if s == dl:
            if not started:
                continue
            if rec['start'] != s:
                msgs.append('%s %r started at %r, expected %r' % (act, pc, rec['start'], s))
            for kind in ('end', 'exc'):
                if kind in rec and rec[kind] != dl:
                    msgs.append('%s %r %s at %r, expected %r' % (act, pc, kind, rec[kind], dl))
            if e > dl and dl != NEVER:
                if 'end' in rec:
                    msgs.append('%s %r completed at %r although it cannot complete before %r' % (
                        act, pc, rec['end'], e))
                elif 'exc' not in rec:
                    msgs.append('%s %r started at %r when its block ends but was never aborted' % (act, pc, s))
            continue
        if not started:
            msgs.append('%s %r never started, expected at %r' % (act, pc, s))
            continue
        if rec['start'] != s:
            msgs.append('%s %r started at %r, expected %r' % (act, pc, rec['start'], s))
        if e < dl:
            if 'end' not in rec:
                msgs.append('%s %r did not complete (%r), expected at %r' % (act, pc, rec, e))
            elif rec['end'] != e:
                msgs.append('%s %r completed at %r, expected exactly %r' % (act, pc, rec['end'], e))
        elif e == dl:
            if isinstance(e, AtInf):
                if rec.get('end') != INF:
                    msgs.append('%s %r should resume when the clock reads infinity, got %r' % (act, pc, rec))
            elif e == NEVER:
                if 'end' in rec or 'exc' in rec:
                    msgs.append('%s %r left its wait at %r although it can never resume' % (
                        act, pc, rec.get('end', rec.get('exc'))))
            else:
                t = rec.get('end', rec.get('exc'))
                if t is None:
                    msgs.append('%s %r neither completed nor was aborted, expected at %r' % (act, pc, e))
                elif t != e:
                    msgs.append('%s %r left at %r, expected exactly %r' % (act, pc, t, e))
        else:
            if 'end' in rec:
                msgs.append('%s %r completed at %r but its block ends at %r and it needs until %r' % (
                    act, pc, rec['end'], dl, e))
            elif rec.get('exc') != dl:
                msgs.append('%s %r aborted at %r, expected at the deadline %r' % (act, pc, rec.get('exc'), dl))
    return msgs
