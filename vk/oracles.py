"""Oracles shared by several properties (C03-style monitors run on every execution)."""
import traceback
from usim import Concurrent
from usim._core.loop import Interrupt, ActivityLeak
from usim._primitives.task import CancelTask, TaskCancelled, TaskClosed
from usim._primitives.context import CancelScope, ScopeClosed


def exc_key(e):
    if e is None:
        return 'none'
    if isinstance(e, Concurrent):
        return 'Concurrent[%s]' % ','.join(exc_key(c) for c in getattr(e, 'children', ()))
    return type(e).__name__


def describe(e):
    if e is None:
        return None
    try:
        return '%s: %s' % (type(e).__name__, e)
    except Exception:
        return type(e).__name__


def leaves(e):
    if isinstance(e, Concurrent):
        for c in e.children:
            yield from leaves(c)
    else:
        yield e


def from_usim_frame(e):
    tb = e.__traceback__
    last = None
    while tb is not None:
        last = tb
        tb = tb.tb_next
    return last is not None and '/usim/' in last.tb_frame.f_code.co_filename.replace('\\', '/')


def kernel_health(ctx, allow_leak=False, ignore=None):
    """C03 monitors: what left run(), what scenario code observed, monitor findings."""
    out = []
    for kind, detail in ctx.findings:
        out.append('%s: %r' % (kind, detail))
    raised = {id(x) for x in ctx.raised}
    e = ctx.outcome
    if e is not None:
        for leaf in leaves(e):
            if id(leaf) in raised:
                continue
            if isinstance(leaf, ActivityLeak) and allow_leak:
                continue
            out.append('run() ended with %s which no scenario code raised' % describe(leaf))
    # every exception observed by scenario code at one of its operations
    open_scopes = {}
    for kind, act, pc, now, data in ctx.log:
        if kind == 'scope-enter':
            open_scopes.setdefault(act, []).append(data)
            continue
        if kind == 'scope-left':
            if data in open_scopes.get(act, ()):
                open_scopes[act].remove(data)
            continue
        if kind != 'exc':
            continue
        x = data
        if id(x) in raised or isinstance(x, GeneratorExit):
            continue
        if ignore is not None and ignore(act, pc, x):
            continue
        if isinstance(x, CancelTask):
            task = ctx.tasks.get(act)
            ok = x.subject is task and any(r[0] == act for r in ctx.cancel_requests)
            if not ok:
                out.append('%s observed CancelTask of %r' % (act, ctx_name(ctx, x.subject)))
            continue
        if isinstance(x, CancelScope):
            # legitimate only while the subject scope is open in this very activity
            names = [n for n in open_scopes.get(act, ()) if ctx.scopes.get(n) is x.subject]
            if not names:
                out.append('%s observed the signal of a scope that is not open in it, at %r' % (act, pc))
            continue
        if isinstance(x, Interrupt):
            out.append('%s observed internal signal %r at %r' % (act, x, pc))
            continue
        if isinstance(x, ScopeClosed):
            continue      # documented: spawning into a scope that has ended
        if isinstance(x, (AssertionError, AttributeError, RuntimeError)) and from_usim_frame(x):
            out.append('%s observed internal error %s at %r' % (act, describe(x), pc))
        elif isinstance(x, RuntimeError) and 'ignored GeneratorExit' in str(x) and not scenario_awaits_in_cleanup(ctx):
            # raised by the interpreter in the frame that awaits the offending coroutine (ours), but the coroutine that
            # suspended while it was being closed is the library's: no scenario cleanup suspends
            out.append('%s was closed at %r but library code suspended again while handling the close (%s)' % (act, pc, x))
    return out


_SILENT_OPS = ('PROBE', 'DO', 'RAISE', 'TRY', 'NOP', 'CANCEL', 'RETURN')


def scenario_awaits_in_cleanup(ctx):
    """does any FINALLY cleanup of the program contain an operation that may suspend?"""
    interp = getattr(ctx, 'interp', None)
    if interp is None:
        return True
    cached = getattr(ctx, '_awaits_in_cleanup', None)
    if cached is not None:
        return cached

    def suspending(script):
        for op in script:
            if op[0] not in _SILENT_OPS:
                return True
            if op[0] == 'TRY' and suspending(op[1]):
                return True
        return False

    def walk(script):
        for op in script:
            if not isinstance(op, list) or not op:
                continue
            if op[0] == 'FINALLY' and suspending(op[2]):
                return True
            for a in op[1:]:
                if isinstance(a, list) and a and isinstance(a[0], list) and walk(a):
                    return True
                if isinstance(a, list) and a and isinstance(a[0], list) and a[0] and isinstance(a[0][0], list):
                    for sub in a:
                        if walk(sub):
                            return True
        return False
    ctx._awaits_in_cleanup = any(walk(s) for _, s in interp.program['roots'])
    return ctx._awaits_in_cleanup


def ctx_name(ctx, task):
    for n, t in ctx.tasks.items():
        if t is task:
            return n
    return repr(task)


def containment(ctx, program):
    """C04's core monitor for any program: once a Scope/until block has been left, no record of any activity that was
    spawned into it (or of their descendants) may follow"""
    from .checks import scopetree as ST
    msgs = []
    try:
        direct, owns, script_of, desc = ST.structure(program)
    except Exception:       # noqa  (programs with shapes the static walk does not know)
        return msgs
    log = ctx.log
    for name, act, pc, e_idx, l_idx in ST.scope_instances(ctx):
        if l_idx is None:
            continue
        d = desc(name)
        for i in range(l_idx + 1, len(log)):
            r = log[i]
            if r[1] in d and r[0] != 'inject':
                msgs.append('%s of %s ran at %r after the block %s was left at %r' % (r[0], r[1], r[3], name, log[l_idx][3]))
                break
    return msgs
