"""C11 - Channel broadcasts every message to every subscribed consumer, in order, once."""
import itertools
import copy
from usim import StreamClosed
from ..run import run_one
from ..oracles import kernel_health, containment
from .. import faults as F
from .c04 import ST_op

PROPERTY = 'C11'
LEVEL = 'fault_enumeration'
RULE = ('every program of 1-2 producers (1-2 messages, arrival 0/+1, also putting in the same time step) and 1-3 consumers '
        '(fast/slow iteration until closed, iteration leaving after one message, single await; subscribing at 0/+1/+2) on one '
        'Channel closed at a fixed or swept moment; fault-free and with one deviation: cancel at every activation boundary of every '
        'consumer, until-interrupt / forceful close swept over every queue position. Oracle: per consumer the expected sequence = '
        'the puts between its subscription and its leave, in put order, each once, at the right time; consumers that were not hit '
        'receive everything; non-trivial = two or more consumers were subscribed while a message was put, or a fault hit a '
        'subscribed consumer')
ASSUMPTIONS = [
    'one channel, <= 2 producers x <= 2 messages, <= 3 consumers; faults only on consumers (as the property quantifies)',
    'a put counts from the activation in which it starts (that is when the message is handed to the subscribed buffers)',
]


def producer(name, arrival, n, gap):
    s = [['D', arrival]] if arrival else []
    for i in range(n):
        if i and gap:
            s.append(['D', 1])
        s.append(['TRY', [['PUT', 'ch', '%s%d' % (name, i)]]])
    return s


def consumer(arrival, kind):
    s = [['D', arrival]] if arrival else []
    if kind == 'iter':
        s.append(['ITER', 'ch', None, []])
    elif kind == 'slow':
        s.append(['ITER', 'ch', None, [['D', 1]]])
    elif kind == 'iter1':
        s += [['ITER', 'ch', 1, []], ['D', 1]]
    elif kind == 'get':
        s.append(['TRY', [['GET', 'ch']]])
    elif kind == 'iterget':
        # a single await of the channel inside the body of an iteration over the same channel: two subscriptions of one task
        s.append(['ITER', 'ch', None, [['TRY', [['GET', 'ch']]]]])
    elif kind == 'get2':
        s += [['TRY', [['GET', 'ch']]], ['TRY', [['GET', 'ch']]]]
    return s


CLOSES = {'t1+': [['D', 1], ['INSTANT'], ['CLOSE', 'ch']], 't2': [['D', 2], ['CLOSE', 'ch']], 't4': [['D', 4], ['CLOSE', 'ch']]}


def program(prods, conss, close, second=False, launch=None):
    """second: a second, independent channel with its own producer and consumer is busy in the same simulation;
    launch: scope.do options for the last consumer (delayed start)"""
    kids = [['DO', 'p%d' % (i + 1), s] for i, s in enumerate(prods)] + [['DO', 'c%d' % (i + 1), s] for i, s in enumerate(conss)]
    if launch:
        kids[-1] = kids[-1] + [launch]
    tail = CLOSES[close]
    if second:
        kids.append(['DO', 'pz', [['TRY', [['PUT', 'ch2', 'z0']]], ['D', 1], ['TRY', [['PUT', 'ch2', 'z1']]], ['TRY', [['PUT', 'ch2', 'z2']]]]])
        kids.append(['DO', 'cz', [['ITER', 'ch2', None, []]]])
        tail = tail + [['TRY', [['CLOSE', 'ch2']]]]
    return {'objs': {'ch': 'Channel', 'ch2': 'Channel'}, '_nops': 40,
            'roots': [['root', [['SCOPE', 's', kids + tail], ['TRY', [['PUT', 'ch', 'late']]], ['TRY', [['GET', 'ch']]],
                                ['PROBE', 'now']]]]}


def BOUNDS(tier):
    return {'quick': {'producers': 2, 'messages_each': 2, 'consumers': '1-2 full, 3 reduced', 'deviations': 1},
            'thorough': {'producers': 2, 'messages_each': 2, 'consumers': 3, 'deviations': 1}}[tier]


def cases(tier):
    out = []
    thorough = tier == 'thorough'
    P1 = [[producer('a', a, n, g)] for a in (0, 1) for n in (1, 2) for g in ((0, 1) if n == 2 else (0,))]
    P2 = [[producer('a', a1, n1, 0), producer('b', a2, 1, 0)] for a1 in (0, 1) for n1 in (1, 2) for a2 in (0, 1)]
    kinds = ('iter', 'slow', 'iter1', 'get', 'get2', 'iterget')
    C = [consumer(a, k) for a in (0, 1, 2) for k in kinds]
    Cs = [consumer(a, k) for a in (0, 1) for k in ('iter', 'slow', 'iter1', 'get')] + [consumer(0, 'iterget')]
    for close in CLOSES:
        for p in P1 + P2:
            for c in (C if thorough else Cs):
                out.append(program(p, [c], close))
            for c1, c2 in itertools.product(Cs, Cs):
                if not thorough and close == 't4' and p in P2:
                    continue
                out.append(program(p, [c1, c2], close))
    tri = Cs if thorough else [consumer(0, 'iter'), consumer(1, 'iter1'), consumer(0, 'get'), consumer(0, 'slow')]
    for close in ('t2', 't4') if thorough else ('t2',):
        for p in (P1 + P2) if thorough else (P1[:2] + P2[:2]):
            for cs in itertools.product(tri, tri, tri):
                out.append(program(p, list(cs), close))
    # messages that are falsy (None, 0, '') - with the close swept over every position, also right behind the put
    falsy = [[['TRY', [['PUT', 'ch', 0]]], ['TRY', [['PUT', 'ch', 'a1']]]], [['D', 1], ['TRY', [['PUT', 'ch', None]]], ['TRY', [['PUT', 'ch', '']]]]]
    for close in ('t1+', 't2'):
        for p in ([falsy[0]], [falsy[1]], falsy):
            for c1, c2 in itertools.product([consumer(0, 'get'), consumer(0, 'iter'), consumer(1, 'get2'), consumer(0, 'get2')], repeat=2):
                out.append(program(p, [c1, c2], close))
    # a second channel in the same simulation: nothing crosses over
    for close in ('t2', 't4'):
        for p in P1[:3] + P2[:2]:
            for c1, c2 in itertools.product(Cs[:5], Cs[:5]):
                out.append(program(p, [c1, c2], close, second=True))
    # a consumer with a delayed start (cancelled / interrupted while it still waits for its start date, too)
    for close in ('t2', 't4'):
        for p in P1[:3] + P2[:2]:
            for c1 in Cs[:4]:
                for c2 in (consumer(0, 'iter'), consumer(0, 'get'), consumer(0, 'slow')):
                    for launch in ({'after': 1}, {'at': 2}, {'after': 0}):
                        out.append(program(p, [c1, c2], close, launch=launch))
    # puts whose awaitable is made some time before the put is performed (`p = channel.put(x)` ... `await p`), also performed
    # in another order than they were made: a message is broadcast when the put is performed
    prep = [[['PUTPREP', 'ch', 'a0', 0], ['D', 1], ['TRY', [['PUT', 'ch', 'a0', 0]]]],
            [['PUTPREP', 'ch', 'a0', 0], ['PUTPREP', 'ch', 'a1', 1], ['D', 1], ['TRY', [['PUT', 'ch', 'a1', 1]]], ['TRY', [['PUT', 'ch', 'a0', 0]]]],
            [['PUTPREP', 'ch', 'a0', 0], ['TRY', [['PUT', 'ch', 'a1']]], ['D', 1], ['TRY', [['PUT', 'ch', 'a0', 0]]]],
            [['PUTPREP', 'ch', 'a0', 0], ['D', 3], ['TRY', [['PUT', 'ch', 'a0', 0]]]]]       # performed after the close
    for close in ('t2', 't4'):
        for p in prep:
            for c1, c2 in itertools.product(Cs[:8], [consumer(0, 'iter'), consumer(1, 'get'), consumer(1, 'iter'), consumer(2, 'iter')]):
                out.append(program([p], [c1, c2], close))
    return out


def close_at(program, t, j):
    p = copy.deepcopy(program)
    body = p['roots'][0][1][0][2]
    while body and body[-1][0] != 'DO':
        body.pop()
    body.append(['DO', 'closer', [['EQ', t], ['SPIN', j], ['CLOSE', 'ch']]])
    if any(op[0] == 'DO' and op[1] == 'cz' for op in body):
        body.append(['DO', 'closer2', [['D', 4], ['TRY', [['CLOSE', 'ch2']]]]])     # the second channel keeps its own close
    return p


def channel_model(ctx, program, hit=()):
    msgs, multi = [], False
    for ch in ('ch', 'ch2'):
        m, mu = one_channel_model(ctx, program, hit, ch)
        msgs += m
        multi = multi or mu
    return msgs, multi


def one_channel_model(ctx, program, hit, ch):
    msgs = []
    log = ctx.log
    puts = []         # (start idx, time, message)  accepted puts in order
    close_idx = None
    ops = {}
    for idx, (kind, act, pc, now, data) in enumerate(log):
        if kind == 'start':
            if data in ('PUT', 'GET', 'ITER', 'CLOSE'):
                o_ = ST_op(program, act, pc)
                # (operations inside the body of an iteration are not resolved by ST_op: those are all on 'ch')
                if (o_[1] if o_ is not None else 'ch') != ch:
                    continue        # an operation on the other channel
            ops[(act, pc)] = {'op': data, 'start': idx, 'act': act, 't': now}
            if data == 'CLOSE' and close_idx is None:
                close_idx = idx
        elif kind in ('end', 'exc') and (act, pc) in ops:
            ops[(act, pc)][kind] = idx
            ops[(act, pc)]['val'] = data
    for key, o in sorted(ops.items(), key=lambda kv: kv[1]['start']):
        if o['op'] == 'PUT':
            msg = ST_op(program, *key)[2]
            refused = 'exc' in o and isinstance(o['val'], StreamClosed)
            if refused:
                if close_idx is None or o['start'] < close_idx:
                    msgs.append('put of %r raised StreamClosed before the channel was closed' % (msg,))
            else:
                if close_idx is not None and o['start'] > close_idx:
                    msgs.append('put of %r after close was accepted' % (msg,))
                puts.append((o['start'], o['t'], msg))
    multi = False
    # iterating consumers
    for key, o in ops.items():
        if o['op'] != 'ITER':
            continue
        act = o['act']
        op = ST_op(program, *key)
        sub = next((i for i in range(o['start'], len(log)) if log[i][0] == 'iter-subscribe' and log[i][1] == act), None)
        leave = next((i for i in range(o['start'], len(log)) if log[i][0] == 'iter-leave' and log[i][1] == act), len(log))
        got = [(i, log[i][3], log[i][4]) for i in range(o['start'], leave) if log[i][0] == 'iter-item' and log[i][1] == act]
        expected = [(i, t, m) for i, t, m in puts if sub is not None and sub < i < leave]
        if len(expected) >= 1 and sum(1 for k2, o2 in ops.items() if o2['op'] in ('ITER', 'GET') and o2['act'] != act and o2['act'] != 'root') >= 1:
            multi = True
        gm = [m for _, _, m in got]
        em = [m for _, _, m in expected]
        if gm != em[:len(gm)]:
            msgs.append('%s received %r, expected (a prefix of) %r' % (act, gm, em))
        complete = act not in hit and op[2] is None and 'end' in o
        if complete and gm != em:
            msgs.append('%s iterated until the channel closed but received %r of %r' % (act, gm, em))
        if op[2] is not None and act not in hit and 'end' in o and len(gm) < min(op[2], len(em)):
            msgs.append('%s left after %d messages but %r were put' % (act, len(gm), em))
        if op[2] is None and 'end' in o and (close_idx is None or o['end'] < close_idx):
            msgs.append('%s: iteration ended before the channel was closed' % act)
        # timeliness
        dur = sum(x[1] for x in op[3] if x[0] == 'D')
        ready = log[sub][3] if sub is not None else None
        fixed_body = all(x[0] == 'D' for x in op[3])      # (a body that waits for a message has no fixed duration)
        for (gi, gt, gmsg), (ei, et, emsg) in zip(got if fixed_body else [], expected):
            want = max(et, ready)
            if gt != want:
                msgs.append('%s received %r at %r, expected at %r (put at %r, consumer ready at %r)' % (act, gmsg, gt, want, et, ready))
                break
            ready = gt + dur
        if act not in hit and 'end' not in o and 'exc' not in o and close_idx is not None:
            msgs.append('%s is still iterating at the end although the channel was closed' % act)
    # single awaits
    for key, o in ops.items():
        if o['op'] != 'GET':
            continue
        act = o['act']
        later = [(i, t, m) for i, t, m in puts if i > o['start']]
        if 'end' in o:
            if not later or o['val'] != later[0][2]:
                msgs.append('%s awaited the channel from step %d and got %r, expected the first later put %r' % (
                    act, o['start'], o['val'], later[:1]))
            elif log[o['end']][3] != later[0][1]:
                msgs.append('%s got %r at %r but it was put at %r' % (act, o['val'], log[o['end']][3], later[0][1]))
        elif 'exc' in o and isinstance(o['val'], StreamClosed):
            if close_idx is None:
                msgs.append('%s got StreamClosed but the channel was never closed' % act)
            elif later and later[0][0] < close_idx and o['start'] < later[0][0]:
                msgs.append('%s got StreamClosed although %r was put while it waited' % (act, later[0][2]))
        elif 'exc' not in o and act not in hit and close_idx is not None:
            msgs.append('%s is still waiting on the closed channel at the end' % act)
    return msgs, multi


def check_exec(program, faults=(), hit=None):
    ctx = run_one(program, faults)
    if hit is None:
        hit = {f['victim'] for f in faults} | {r[1] for r in ctx.log if r[0] == 'inject'}
        # attacked consumers (until / close attackers) are marked in the program
        hit |= set(program.get('_hit', ()))
    msgs, multi = channel_model(ctx, program, hit)
    msgs += kernel_health(ctx)
    msgs += containment(ctx, program)
    if ctx.outcome is not None:
        msgs.append('run() raised %r' % (ctx.outcome,))
    if not any(r[0] == 'finish' and r[1] == 'root' for r in ctx.log):
        msgs.append('the root never finished')
    return ctx, msgs, multi


def explore_case(program, tier):
    rep = {'execs': 0, 'nontrivial': 0, 'outcomes': {}, 'viol': [], 'counters': {}}

    def one(prog, faults, label):
        ctx, msgs, multi = check_exec(prog, faults)
        rep['execs'] += 1
        rep['nontrivial'] += int(bool(multi))
        key = '%s/%s' % (label, 'multi' if multi else 'single')
        rep['outcomes'][key] = rep['outcomes'].get(key, 0) + 1
        if msgs:
            rep['viol'].append({'faults': {'program': prog, 'faults': faults} if prog is not program else faults, 'msgs': msgs})

    bounds = []
    ctx0 = run_one(program, (), observe=F.observer(bounds))
    one(program, [], 'plain')
    if rep['viol']:
        return rep
    victims = [op[1] for op in program['roots'][0][1][0][2] if op[0] == 'DO' and op[1].startswith('c')]
    pts, skipped = F.cancel_points(ctx0, bounds, victims=victims)
    rep['counters']['boundaries_skipped_internal'] = skipped
    for k, v in pts:
        one(program, [{'k': k, 'kind': 'cancel', 'victim': v, 'token': 'x'}], 'cancel')
    # a consumer that has already left is cancelled (teardown code cancelling all its tasks): nothing may change for the others
    alive_at = {k: set(alive) for k, _, alive in bounds}
    allpts, _ = F.cancel_points(ctx0, bounds, victims=victims, include_done=True)
    for v in victims:
        gone = [k for k, vv in allpts if vv == v and v not in alive_at[k] and any(r[0] == 'begin' and r[1] == v for r in ctx0.log)]
        for k in sorted(set(gone[:2] + gone[-1:])):
            one(program, [{'k': k, 'kind': 'cancel', 'victim': v, 'token': 'late'}], 'cancel-gone')
    positions = F.attack_positions(ctx0, 0)
    for t, j in positions:
        one(close_at(program, t, j), [], 'closepos')
        if len(victims) > 1 and j <= 1:
            p = F.abort_all_attack(program, t, j)
            # (the close that the scope body would have done is made up for, so that the root's tail meets a closed channel)
            p['roots'][0][1][0] = ['FINALLY', [p['roots'][0][1][0]], [['TRY', [['CLOSE', 'ch']]]]]
            p['_hit'] = list(victims)
            one(p, [], 'closeall')
        for v in victims:
            p = F.until_attack(program, v, t, j, True)
            p['_hit'] = [v]
            one(p, [], 'until')
            p = F.close_attack(program, v, t, j)
            p['_hit'] = [v]
            one(p, [], 'close')
    return rep


def replay(case, faults):
    if isinstance(faults, dict):
        return check_exec(faults['program'], faults['faults'])[1]
    return check_exec(case, faults)[1]
