"""C01 - virtual time is monotone and every timed wait resumes at exactly its date."""
import itertools
from ..run import run_one
from ..clockmodel import Model, Invalid, judge_times, NEVER
from ..oracles import kernel_health, exc_key

PROPERTY = 'C01'
LEVEL = 'exploration'
RULE = ('all time-only programs of the grammar (roots x scripts over D/EQ/GE/LT/INSTANT/ETERNITY with '
        'colliding small dates, wrapped in scope.do(after|at) and until(delay|date)), for 3 start times; connectives of time '
        'atoms in every nesting; 5 (thorough: 6) activities with delay plans that keep many distinct dates pending; run(till=...) for every '
        'start time; tickers created before they are iterated; the alternative wait-queue backend; one condition object shared by several waits and guards; delays / dates / ticker periods of 2**-32 and 2**-40; '
        'non-trivial = at least two activities have operations ending in the same time step, or an operation '
        'can never resume, or a date is already reached/past when awaited')
ASSUMPTIONS = [
    'dates/delays only from {-1,0,1,2,inf} relative to the start time, start in {0,3,-2}; plus a family with fractional values {0.1,0.2,0.3,0.7,0.9,1.1} and start 0.1',
    'at most 3 concurrent activities and 3 operations per script (thorough); 2 and 2 (quick)',
    'oracle: independent arithmetic clock model (vk/clockmodel.py) + VLoop clock/FIFO monitors',
]

STARTS = (0, 3, -2)
OPS = ([['D', d] for d in (0, 1, 2)] + [['EQ', t] for t in (-1, 0, 1, 2)] + [['GE', t] for t in (-1, 0, 1, 2)]
       + [['LT', t] for t in (-1, 0, 1, 2, 'inf')] + [['INSTANT'], ['ETERNITY']])
SMALL = [['D', 1], ['D', 2], ['EQ', 0], ['EQ', 1], ['GE', 1], ['GE', -1], ['LT', 1], ['LT', 0], ['INSTANT'],
         ['ETERNITY']]


def scripts(alphabet, maxlen, minlen=0):
    out = []
    for n in range(minlen, maxlen + 1):
        out.extend([list(p) for p in itertools.product(alphabet, repeat=n)])
    return out


def BOUNDS(tier):
    return {'quick': {'activities': 2, 'script_len': 2, 'starts': list(STARTS)},
            'thorough': {'activities': 3, 'script_len': 3, 'starts': list(STARTS)}}[tier]


def cases(tier):
    progs = []
    thorough = tier == 'thorough'
    # family A: plain concurrent scripts
    one = scripts(OPS, 3 if thorough else 2, 1)
    for st in STARTS:
        for s in one:
            progs.append({'start': st, 'roots': [['a', s]]})
    pair_alpha = scripts(OPS, 2, 1) if thorough else scripts(OPS, 1, 1) + scripts(SMALL, 2, 2)
    for st in STARTS:
        for s1 in pair_alpha:
            for s2 in pair_alpha:
                progs.append({'start': st, 'roots': [['a', s1], ['b', s2]]})
    if thorough:
        tri = scripts(SMALL, 1, 1) + scripts(SMALL[:6], 2, 2)
        for st in STARTS:
            for s1 in tri:
                for s2 in tri:
                    for s3 in scripts(SMALL, 1, 1):
                        progs.append({'start': st, 'roots': [['a', s1], ['b', s2], ['c', s3]]})
    # family B: children started with after= / at=
    child_scripts = scripts(SMALL, 2 if thorough else 1, 1)
    opts = [None] + [{'after': d} for d in (0, 1, 2)] + [{'at': t} for t in (0, 1, 2)]
    pre = [[], [['D', 1]], [['GE', 2]]]
    for st in STARTS:
        for p in pre:
            for o1 in opts:
                for c1 in child_scripts:
                    for body_tail in ([], [['D', 1]], [['EQ', 2]]):
                        progs.append({'start': st, 'roots': [['a', p + [['SCOPE', 's', [['DO', 'k1', c1, o1]] + body_tail],
                                                                        ['PROBE', 'now']]]]})
                    for o2 in opts:
                        for c2 in (child_scripts[:20] if thorough else child_scripts[:5]):
                            progs.append({'start': st, 'roots': [['a', p + [
                                ['SCOPE', 's', [['DO', 'k1', c1, o1], ['DO', 'k2', c2, o2]]], ['PROBE', 'now']]]]})
    # family C: until(delay | date) around scripts, next to a second activity
    notifs = [['DELAY', 1], ['DELAY', 2]] + [['EQ', t] for t in (-1, 0, 1, 2)] + [['GE', t] for t in (-1, 0, 1, 2)]
    bodies = scripts(SMALL, 2, 0)
    for st in STARTS:
        for p in ([], [['D', 1]]):
            for n in notifs:
                for b in bodies:
                    for tail in ([['INSTANT']], [['D', 1]]):
                        progs.append({'start': st, 'roots': [['a', p + [['UNTIL', 'u', n, b]] + tail],
                                                             ['b', [['D', 1], ['GE', 2]]]]})
    if thorough:
        for st in STARTS:
            for n1 in notifs:
                for n2 in notifs:
                    for b in scripts(SMALL, 1, 1):
                        progs.append({'start': st, 'roots': [['a', [['UNTIL', 'u', n1, [['UNTIL', 'v', n2, b], ['D', 1]]],
                                                                    ['INSTANT']]]]})
    # family D: fractional, non-dyadic dates and delays (float round trips must not move a date)
    fr_pre = [[['D', 0.2]], [['D', 0.1], ['D', 0.2]], [['GE', 0.3]], []]
    fr_opts = [{'at': 0.7}, {'at': 0.9}, {'at': 1.1}, {'after': 0.1}, {'after': 0.7}]
    fr_child = [[['EQ', 0.9]], [['D', 0.1]], [['GE', 1.1]], [['EQ', 0.7], ['D', 0.2]]]
    fr_other = [[['EQ', 0.9]], [['D', 0.7], ['D', 0.2]], [['GE', 0.3], ['EQ', 1.1]]]
    for st in STARTS + (0.1,):
        for p in fr_pre:
            for o in fr_opts:
                for c in fr_child:
                    for other in fr_other:
                        progs.append({'start': st, 'roots': [['a', p + [['SCOPE', 's', [['DO', 'k1', c, o]]], ['PROBE', 'now']]],
                                                             ['b', other]]})
            for n in ([['EQ', 0.9], ['GE', 0.7], ['DELAY', 0.7]]):
                for b in fr_child:
                    progs.append({'start': st, 'roots': [['a', p + [['UNTIL', 'u', n, b], ['D', 0.1]]], ['b', fr_other[1]]]})
    # family E: connectives of time conditions (the wait must re-check after every wake-up)
    conn = []
    tatoms = [['GE', 1], ['GE', 2], ['EQ', 2], ['LT', 1], ['LT', 3], ['EQ', 0], ['GE', -1]]
    for a, b in itertools.permutations(tatoms, 2):
        conn.append(['WAIT', ['AND', a, b]])
        conn.append(['WAIT', ['OR', a, b]])
    conn += [['WAIT', ['AND', ['GE', 1], ['GE', 2], ['LT', 3]]], ['WAIT', ['OR', ['AND', ['GE', 1], ['LT', 2]], ['EQ', 2]]],
             ['WAIT', ['AND', ['OR', ['EQ', 1], ['GE', 2]], ['GE', 1]]]]
    for st in STARTS:
        for c in conn:
            for pre in ([], [['D', 1]]):
                progs.append({'start': st, 'roots': [['a', pre + [c, ['INSTANT']]], ['b', [['D', 1], ['GE', 2]]]]})
    # (every nesting of a connective inside the other one, on either side: c | (a & b) is not c | a | b)
    natoms = [['GE', 1], ['GE', 2], ['EQ', 2], ['LT', 1], ['LT', 3], ['GE', 3]]
    nested = []
    for a, b, c in itertools.permutations(natoms, 3):
        nested += [['WAIT', ['OR', c, ['AND', a, b]]], ['WAIT', ['AND', c, ['OR', a, b]]],
                   ['WAIT', ['OR', ['AND', a, b], c]], ['WAIT', ['AND', ['OR', a, b], c]]]
    for st in (STARTS if thorough else STARTS[:2]):
        for c in nested:
            progs.append({'start': st, 'roots': [['a', [c, ['INSTANT']]], ['b', [['D', 1], ['GE', 2]]]]})
    # family F: a child still waiting for its start date when its until-block ends; the simulation goes on past that date
    for st in STARTS:
        for n in ([['DELAY', 1], ['EQ', 1], ['GE', 1]]):
            for o in ({'after': 2}, {'at': 2}, {'after': 1}):
                for tail in ([['D', 3]], [['D', 1], ['D', 2]]):
                    progs.append({'start': st, 'roots': [['a', [['UNTIL', 'u', n, [['DO', 'k1', [['D', 1]], o], ['D', 3]]]] + tail],
                                                         ['b', [['D', 4]]]]})
    # family G: an infinite delay ends when the clock reads infinity
    for st in STARTS:
        for s1 in ([['D', 'inf']], [['D', 1], ['D', 'inf']], [['GE', 2], ['D', 'inf']]):
            for s2 in ([['D', 2]], [['D', 'inf']], [['ETERNITY']]):
                progs.append({'start': st, 'roots': [['a', s1], ['b', s2]]})
    # family H: many distinct dates pending at once while new ones are scheduled (the order of the time-keyed queue)
    plans = [[4], [8], [3], [6], [2, 3], [2, 11], [1, 5], [3, 4]]
    nact = 6 if thorough else 5
    for combo in itertools.product(plans[:7] if thorough else plans, repeat=nact):
        progs.append({'start': 0, 'roots': [['a%d' % i, [['D', d] for d in plan]] for i, plan in enumerate(combo)]})
    # family I: run(till=...) is an absolute date, also for start times other than 0
    for st in STARTS:
        for till in (1, 2, 0, -1):      # (-1: a date before the start is never reached, the run ends at quiescence)
            for s1 in scripts(SMALL, 2, 1):
                for s2 in ([['D', 1]], [['D', 3]], [['GE', 2], ['D', 1]], [['ETERNITY']]):
                    progs.append({'start': st, 'till': till, 'roots': [['a', s1], ['b', s2]]})
    # family J: very short delays, dates and periods (a wait of 2**-32 is a wait, not "no time")
    # (the last pair: delays below the resolution of the clock value - now + d == now - are valid and take no time)
    for tiny, starts_ in ((2.0 ** -32, (0, 3)), (2.0 ** -40, (0, 3)), (1e-9, (10 ** 9, 1e9))):
        for st in starts_:
            others = [[['D', tiny]], [['D', tiny], ['D', tiny]], [['EQ', 2 * tiny]], [['GE', tiny], ['INSTANT']], [['D', 1]]]
            for s1 in ([['INTERVAL', tiny, 3, [[], [], []]]], [['DELAYLOOP', tiny, 3, [[], [], []]]],
                       [['INTERVAL', tiny, 3, [[['INSTANT']], [], [['D', tiny / 2]]]]], [['D', tiny], ['EQ', 3 * tiny]],
                       [['UNTIL', 'u', ['DELAY', tiny], [['D', 1]]], ['INSTANT']], [['UNTIL', 'u', ['EQ', 2 * tiny], [['D', tiny], ['D', 1]]]]):
                for s2 in others:
                    progs.append({'start': st, 'roots': [['a', s1], ['b', s2]]})
    # family N: dates and delays of an exact number type (fractions.Fraction) that have no exact float: the clock takes exactly
    # these values (`time == date` holds at the resumption), whatever the backend of the time-keyed queue
    F1, F2 = {'$': 'frac', 'n': 1, 'd': 3}, {'$': 'frac', 'n': 2, 'd': 3}
    for st in (0, 3):
        for s1 in ([['D', F1]], [['D', F1], ['D', F1]], [['EQ', F2]], [['GE', F1], ['INSTANT']], [['D', F1], ['EQ', F2]],
                   [['UNTIL', 'u', ['DELAY', F1], [['D', 1]]], ['INSTANT']], [['UNTIL', 'u', ['EQ', F2], [['D', F1], ['D', 1]]]],
                   [['D', F1], ['LT', F2]], [['D', F2], ['LT', F2]]):
            for s2 in ([['D', F1]], [['D', 1]], [['EQ', F2]], [['D', 0.5]], [['GE', F2], ['D', F1]]):
                for wq in (None, 'SD'):
                    prog = {'start': st, 'roots': [['a', s1], ['b', s2]]}
                    if wq:
                        prog['_waitq'] = wq
                    progs.append(prog)
    # family K: ONE condition object used in several places at once by the same activity (guard of an until block and
    # an inner wait / inner guard that is abandoned earlier) and by two activities
    for st in STARTS:
        for spec in (['GE', 2], ['EQ', 2]):
            K = ['C', 'K']
            for s1 in ([['UNTIL', 'u', K, [['UNTIL', 'v', ['DELAY', 1], [['WAIT', K]]], ['D', 5]]], ['INSTANT']],
                       [['UNTIL', 'u', K, [['UNTIL', 'v', K, [['D', 5]]], ['D', 5]]], ['INSTANT']],
                       [['UNTIL', 'u', K, [['UNTIL', 'v', ['DELAY', 1], [['WAIT', ['OR', K, ['GE', 5]]]]], ['D', 5]]], ['INSTANT']],
                       [['UNTIL', 'u', K, [['UNTIL', 'v', ['DELAY', 1], [['UNTIL', 'w', K, [['D', 5]]]]], ['D', 5]]], ['INSTANT']],
                       [['UNTIL', 'v', ['DELAY', 1], [['WAIT', K]]], ['WAIT', K], ['INSTANT']],
                       [['WAIT', K], ['WAIT', K]]):
                for s2 in ([['D', 1]], [['WAIT', K], ['INSTANT']], [['UNTIL', 'x', ['DELAY', 1], [['WAIT', K]]], ['D', 3]],
                           [['UNTIL', 'x', K, [['D', 4]]], ['INSTANT']]):
                    progs.append({'start': st, 'conds': {'K': spec}, 'roots': [['a', s1], ['b', s2]]})
    # (one delay object `time + d` shared by overlapping waits: each wait lasts d from its own beginning)
    for st in STARTS[:2]:
        K = ['C', 'K']
        for d in (2, 3):
            for s1 in ([['WAIT', K], ['WAIT', K]], [['D', 1], ['WAIT', K], ['INSTANT']], [['UNTIL', 'u', K, [['D', 5]]], ['INSTANT']],
                       [['UNTIL', 'u', ['DELAY', 1], [['WAIT', K]]], ['WAIT', K]]):
                for s2 in ([['WAIT', K]], [['D', 1], ['WAIT', K]], [['D', 2], ['UNTIL', 'x', K, [['D', 9]]], ['INSTANT']], [['D', 1], ['D', 1], ['WAIT', K]]):
                    progs.append({'start': st, 'conds': {'K': ['DELAY', d]}, 'roots': [['a', s1], ['b', s2], ['c', [['D', 1], ['WAIT', K]]]]})
    # family L: interval()/delay() iterators that are created some time before they are iterated
    for st in STARTS[:2]:
        for kind in ('INTERVAL', 'DELAYLOOP'):
            for period in (1, 2):
                for pre in (1, 3):
                    for bodies in ([[], []], [[['D', 1]], []], [[['INSTANT']], [['D', 1]], []]):
                        progs.append({'start': st, 'roots': [['a', [[kind, period, len(bodies), bodies, pre], ['INSTANT']]],
                                                             ['b', [['D', 1], ['GE', 3]]]]})
    # family M: the programs with many pending dates (H) and a slice of the others on the alternative queue backend
    extra = [p for p in progs if len(p['roots']) >= 5][::7] + progs[::97]
    for p in extra:
        q = dict(p)
        q['_waitq'] = 'SD'
        progs.append(q)
    # drop programs that are not valid usim programs (start date in the past)
    valid = []
    for p in progs:
        try:
            Model(p)
        except Invalid:
            continue
        valid.append(p)
    return valid


def check_exec(program, faults=()):
    ctx = run_one(program, faults)
    model = Model(program)
    msgs = judge_times(model, ctx.log)
    msgs += kernel_health(ctx)
    if ctx.outcome is not None:
        msgs.append('run() raised %r' % (ctx.outcome,))
    return ctx, model, msgs


def explore_case(program, tier):
    ctx, model, msgs = check_exec(program)
    ends = [e for (s, e, dl) in model.ops.values()]
    finite = [e for e in ends if e != NEVER]
    nontrivial = (len(finite) != len(set(finite))) or (NEVER in ends)
    outcome = '%d-acts/%s' % (len(model.begins), 'blocked' if NEVER in ends else 'done')
    return {'execs': 1, 'nontrivial': int(nontrivial), 'outcomes': {outcome: 1},
            'viol': [{'faults': [], 'msgs': msgs}] if msgs else [],
            'counters': {'activations': len(ctx.trace)}}


def replay(case, faults):
    return check_exec(case, faults)[2]
