"""C06 - task lifecycle: forward-only status, stable result, precise cancellation."""
import itertools
from usim import TaskCancelled, TaskClosed, Concurrent
from usim._primitives.task import CancelTask
from ..run import run_one
from ..oracles import kernel_health, describe
from .. import faults as F

PROPERTY = 'C06'
LEVEL = 'fault_enumeration'
RULE = ('one victim task (payloads: two delays, lock with a competing holder, nested scope, immediate return, return after a '
        'postponement, raise (also a falsy exception object), self-cancel, awaiting only finished tasks after its last pause, suspended in '
        'an until block whose child ends / fails, handling its cancellation gracefully; started now / after=1 / at=1) with 0-1 siblings and 1-2 awaiters that await it '
        'twice, before and after completion; cancel() injected at EVERY activation boundary (before start, at each suspension, '
        'after completion) with 1 and 2 deviations (repeated cancel, distinct tokens). Oracle: status word automaton sampled at '
        'every boundary, identical result object for all awaiters, cancellation semantics by status at the cancel, parent and '
        'siblings undisturbed; non-trivial = a cancel was injected while the victim was created or running')
ASSUMPTIONS = [
    'one victim, <= 2 awaiters, <= 1 sibling; payload alphabet of 8 shapes',
    'a task with a start delay that is cancelled in the very time step of its start date may or may not run its first statement',
    'token of a cancelled task must be the token of the first cancel requested before it was done',
]

PAYLOADS = {
    'dd': [['D', 1], ['D', 1]],
    'lock': [['LOCK', 'l', [['D', 1]]], ['INSTANT']],
    'scope': [['SCOPE', 'vs', [['DO', 'g', [['D', 1]]], ['D', 2]]], ['INSTANT']],
    'ret': [['RETURN', 7]],
    'iret': [['INSTANT'], ['RETURN', 8]],
    'raise': [['D', 1], ['RAISE', 'KeyError', 'v']],
    # owns a scope whose child fails (in the time step of the cancel) / raises while the cancellation closes it
    'scopefail': [['SCOPE', 'vs', [['DO', 'g', [['D', 1], ['RAISE', 'KeyError', 'g']]], ['D', 2]]], ['INSTANT']],
    'scopefinraise': [['SCOPE', 'vs', [['DO', 'g', [['FINALLY', [['D', 3]], [['RAISE', 'ValueError', 'cleanup']]]]], ['D', 2]]], ['INSTANT']],
    # fails with an exception object that is falsy
    'raisefalsy': [['D', 1], ['RAISE', 'Empty', 'v']],
    # wakes up and then only awaits tasks that are finished already (each such await is still a suspension point)
    'awaitdone': [['D', 1], ['AWAIT', 'fin'], ['AWAITDONE', 'fin'], ['AWAIT', 'fin'], ['RETURN', 9]],
    'selfcancel': [['D', 1], ['CANCEL', 'v', 'self'], ['INSTANT'], ['D', 1]],
    'instant': [['INSTANT'], ['INSTANT']],
    'watch': [],
    'graceful': [['ONCANCEL', [['D', 2]], [['D', 3]]], ['INSTANT']],
    # suspended inside an until block whose child ends / fails in the time step of the cancel
    'until': [['UNTIL', 'vu', ['DELAY', 2], [['DO', 'g', [['D', 1]]], ['ETERNITY']]], ['INSTANT']],
    'untilfail': [['UNTIL', 'vu', ['ETERNITY'], [['DO', 'g', [['D', 1], ['RAISE', 'KeyError', 'g']]], ['ETERNITY']]], ['INSTANT']],
}
STARTS = [None, {'after': 1}, {'at': 1}]


def awaiter(delay):
    s = [['D', delay]] if delay else []
    return s + [['TRY', [['AWAIT', 'v']]], ['TRY', [['AWAIT', 'v']]], ['PROBE', 'status', 'v']]


def program(payload, start, awaiters, sibling, vfirst):
    kids = []
    v = ['DO', 'v', PAYLOADS[payload], start]
    if payload == 'watch':
        # the payload of the victim is ANOTHER TASK (its sibling): cancelling the watcher never touches the watched task
        sibling = False
        kids.append(['DO', 'sib', [['D', 2], ['PROBE', 'now']]])
        v = ['DO', 'v', [], dict(start or {}, bare=['TASK', 'sib'])]
    if payload == 'lock':
        kids.append(['DO', 'holder', [['LOCK', 'l', [['D', 1]]]]])
    if payload == 'awaitdone':
        kids.append(['DO', 'fin', [['RETURN', 3]]])
    if vfirst:
        kids.append(v)
    for i, d in enumerate(awaiters):
        kids.append(['DO', 'w%d' % (i + 1), awaiter(d)])
    if not vfirst:
        kids.append(v)
    if sibling:
        kids.append(['DO', 'sib', [['D', 2], ['PROBE', 'now']]])
    return {'objs': {'l': 'Lock'}, '_nops': 40, '_payload': payload, '_start': start,
            'roots': [['root', [['TRY', [['SCOPE', 's', kids]]], ['PROBE', 'now'], ['D', 1], ['TRY', [['AWAIT', 'v']]]]]]}


def special_programs():
    out = []
    # a child is cancelled before it starts and its scope is torn down in the same turn: the outcome must stay TaskCancelled
    for extra in ([['RAISE', 'IndexError', 'body']], [['INSTANT'], ['RAISE', 'IndexError', 'body']], []):
        kids = [['DO', 'v', [['D', 1]]], ['CANCEL', 'v', 'first']] + extra
        outer = [['DO', 'w1', [['D', 1], ['TRY', [['AWAIT', 'v']]], ['TRY', [['AWAIT', 'v']]], ['PROBE', 'status', 'v']]],
                 ['DO', 'own', [['TRY', [['SCOPE', 's', kids]]]]]]
        out.append({'objs': {'l': 'Lock'}, '_nops': 40, '_payload': 'dd', '_start': None, '_special': 'precancel',
                    'roots': [['root', [['TRY', [['SCOPE', 'm', outer]]], ['PROBE', 'now'], ['D', 1], ['TRY', [['AWAIT', 'v']]]]]]})
    # a child spawned during the graceful shutdown of its scope and cancelled before its first turn
    for d in (0, 1):
        spawner = ([['D', d]] if d else []) + [['DO', 'v', [['D', 1]], {'scope': 's'}], ['CANCEL', 'v', 'first'], ['PROBE', 'status', 'v']]
        # (also: a sibling that finishes in the same time step just before the spawner does)
        for sib_first, sd in ((False, 2), (True, 1), (True, 0)):
            sib = ['DO', 'sib', ([['D', sd]] if sd else []) + [['PROBE', 'now']]]
            kids2 = [sib, ['DO', 'sp', spawner]] if sib_first else [['DO', 'sp', spawner], sib]
            out.append({'objs': {'l': 'Lock'}, '_nops': 40, '_payload': 'dd', '_start': None, '_special': 'latecancel',
                        'roots': [['root', [['TRY', [['SCOPE', 's', kids2]]], ['PROBE', 'now'], ['D', 1], ['TRY', [['AWAIT', 'v']]]]]]})
        kids = [['DO', 'sp', spawner], ['DO', 'sib', [['D', 2], ['PROBE', 'now']]]]
        out.append({'objs': {'l': 'Lock'}, '_nops': 40, '_payload': 'dd', '_start': None, '_special': 'latecancel',
                    'roots': [['root', [['TRY', [['SCOPE', 's', kids]]], ['PROBE', 'now'], ['D', 1], ['TRY', [['AWAIT', 'v']]]]]]})
    return out


def BOUNDS(tier):
    return {'quick': {'awaiters': '1-2', 'deviations': '1 everywhere, 2 on one-awaiter programs'},
            'thorough': {'awaiters': '1-2', 'deviations': 2}}[tier]


def cases(tier):
    out = []
    for payload in PAYLOADS:
        for start in STARTS:
            for aw in ([0], [1], [3], [0, 3], [1, 1], [0, 0]):
                for sibling in (False, True):
                    for vfirst in (True, False):
                        if tier == 'quick' and len(aw) == 2 and not vfirst and sibling:
                            continue
                        out.append(program(payload, start, aw, sibling, vfirst))
    return out + special_programs()


FINAL = ('SUCCESS', 'FAILED', 'CANCELLED')


def lifecycle(ctx, snaps, program, faults):
    msgs = []
    log = ctx.log
    task = ctx.tasks.get('v')
    if task is None:
        return ['the victim was never spawned']
    # (1) status word
    word = [st for _, st, _ in snaps if st is not None]
    rank = {'CREATED': 0, 'RUNNING': 1, 'SUCCESS': 2, 'FAILED': 2, 'CANCELLED': 2}
    for a, b in zip(word, word[1:]):
        if rank[b] < rank[a] or (rank[a] == 2 and a != b):
            msgs.append('status went from %s to %s' % (a, b))
            break
    final = task.status.name
    done_time = next((t for _, st, t in snaps if st in FINAL), None)
    # (2) awaiters: identical results, right kind, right time
    results = []
    for idx, (kind, act, pc, now, data) in enumerate(log):
        if kind in ('end', 'exc') and idx and op_of(log, idx) == 'AWAIT' and act != 'v':      # (awaits OF the victim, not by it)
            st = start_of(log, idx)
            results.append((kind, data, now, log[st][3], act))
    # an awaiter that was itself closed or interrupted (its scope failed) received nothing from the task
    results = [r for r in results if not (r[0] == 'exc' and isinstance(r[1], (GeneratorExit, CancelTask)))]
    vals = [(k, d) for k, d, _, _, _ in results]
    for k, d in vals[1:]:
        same = (k == vals[0][0]) and (d is vals[0][1] or (k == 'end' and d == vals[0][1]))
        if not same:
            msgs.append('awaiters received different outcomes: %r vs %r' % (vals[0], (k, d)))
            break
    payload_exc = [x for x in ctx.raised if x.args and str(x.args[0]).endswith('@v')]
    # (a payload whose own child failed ends with the Concurrent of that failure: the object that left the payload)
    payload_exc += [r[4] for r in log if r[0] == 'abort' and r[1] == 'v' and isinstance(r[4], Concurrent)
                    and all(any(c is x for x in ctx.raised) for c in r[4].children)]
    for k, d, t_end, t_start, act in results:
        if isinstance(d, (CancelTask,)):
            continue        # the awaiter itself was disturbed (not expected here)
        if final == 'SUCCESS' and k != 'end':
            msgs.append('task succeeded but %s got %s' % (act, describe(d)))
        if final == 'FAILED' and not (k == 'exc' and any(d is x for x in payload_exc)):
            msgs.append('task failed but %s got %r instead of the very exception it raised' % (act, d))
        if final == 'CANCELLED':
            was_cancelled = any(r[0] == 'inject' and r[1] == 'v' and r[4]['status'].name in ('CREATED', 'RUNNING') for r in log)
            if was_cancelled and not (k == 'exc' and isinstance(d, TaskCancelled) and d.subject is task):
                msgs.append('task was cancelled but %s got %r instead of TaskCancelled' % (act, d))
            elif not was_cancelled and not (k == 'exc' and isinstance(d, (TaskCancelled, TaskClosed))):
                msgs.append('task is closed but %s got %r' % (act, d))
        if done_time is not None and t_end != max(t_start, done_time):
            msgs.append('%s awaited from %r, the task was done at %r, but the await returned at %r' % (act, t_start, done_time, t_end))
    # (3)-(5) cancellation semantics
    cancels = [(idx, now, data) for idx, (kind, act, pc, now, data) in enumerate(log) if kind == 'inject' and act == 'v']
    began = next((i for i, r in enumerate(log) if r[0] == 'begin' and r[1] == 'v'), None)
    ended = next((i for i, r in enumerate(log) if r[0] in ('finish', 'abort') and r[1] == 'v'), None)
    start = program['_start']
    start_date = 1 if start else 0
    effective = [c for c in cancels if c[2]['status'].name in ('CREATED', 'RUNNING')]
    if effective:
        idx, t_c, info = effective[0]
        st = info['status'].name
        if st == 'CREATED':
            if began is not None:
                msgs.append('cancelled before it started (status CREATED) but its code ran')
            if final != 'CANCELLED':
                msgs.append('cancelled while CREATED but the final status is %s' % final)
        else:
            # running: either it finished on its own within this time step before the signal arrived, or it is cancelled now
            own_end = ended is not None and not isinstance(log[ended][4], CancelTask)
            # (finishing on its own after the cancel is only possible if it met no suspension point on the way: every
            # operation other than the ones below is a suspension point, at which the cancellation has to be raised)
            silent = ('RETURN', 'RAISE', 'PROBE', 'DO', 'CANCEL', 'NOP', 'TRY')
            met_suspension = ended is not None and any(r[0] == 'start' and r[1] == 'v' and r[4] not in silent
                                                       for r in log[idx:ended])
            if own_end and met_suspension and ended > idx and program['_payload'] == 'awaitdone':
                msgs.append('cancelled at %r before it resumed, it then passed the suspension point(s) %r and still finished '
                            'on its own' % (t_c, [r[4] for r in log[idx:ended] if r[0] == 'start' and r[1] == 'v' and r[4] not in silent]))
            # (nor if the activation in which it ended was the delivery of a cancellation: then the cancellation is what
            # must leave the payload, whatever else happened to its children in that time step)
            resumed_by_cancel = ended is not None and ctx.trace[ctx.log_act[ended] - 1][3] == 'CancelTask'
            if own_end and resumed_by_cancel and ended > idx and program['_payload'] not in ('graceful',):
                msgs.append('the cancellation was delivered to the task at %r but it ended with %r instead' % (
                    log[ended][3], log[ended][4]))
            # (a watcher whose payload is another task writes no records of its own: when the watched task finishes in the time
            # step of the cancel, the watcher's wake-up and the cancellation race - both outcomes are admissible)
            watch_tie = program['_payload'] == 'watch' and any(r[0] == 'finish' and r[1] == 'sib' and r[3] == t_c for r in log)
            if watch_tie:
                pass
            elif own_end and log[ended][3] == t_c and ended > idx or (own_end and ended < idx):
                if final == 'CANCELLED':
                    msgs.append('the task completed on its own at %r but is reported cancelled' % t_c)
            else:
                if final != 'CANCELLED':
                    msgs.append('cancel at %r of the running task did not cancel it (final status %s)' % (t_c, final))
                caught = any(r[0] == 'cancel-caught' and r[1] == 'v' and r[3] == t_c for r in log[idx:])
                if program['_payload'] == 'graceful' and caught:
                    # the payload cleans up for 3 after the first cancel; a later cancel that arrives while it is
                    # suspended in its cleanup is raised there, in that time step
                    later = [c for c in cancels if c[0] > idx and c[1] < t_c + 3]
                    want = later[0][1] if later else t_c + 3
                    if done_time is not None and done_time != want:
                        msgs.append('graceful payload cancelled at %r (further cancels at %r) is done at %r, expected %r' % (
                            t_c, [c[1] for c in cancels[1:]], done_time, want))
                elif done_time is not None and done_time != t_c:
                    msgs.append('cancelled at %r but done only at %r' % (t_c, done_time))
                if began is not None and ended is not None and not caught:
                    if log[ended][3] != t_c or not isinstance(log[ended][4], CancelTask):
                        msgs.append('the cancellation was not raised inside the task in the same time step: %r' % (log[ended][3:],))
                if began is not None and ended is None:
                    msgs.append('the payload started but never saw the cancellation')
                if began is None and start and t_c < start_date:
                    pass
                if began is not None and start and t_c < start_date:
                    msgs.append('cancelled at %r before its start date %r but its code ran' % (t_c, start_date))
        if final == 'CANCELLED':
            # the token (and cause) awaiters see belong to the very cancellation that left the payload
            if ended is not None and isinstance(log[ended][4], CancelTask):
                left = log[ended][4]
                for k, d, _, _, act in results:
                    if isinstance(d, TaskCancelled) and (tuple(d.args) != tuple(left.token) or d.__cause__ is not left):
                        msgs.append('%s got TaskCancelled%r but the cancellation that ended the task carried %r' % (
                            act, d.args, tuple(left.token)))
                        break
            for k, d, _, _, act in results:
                if program['_payload'] == 'graceful':
                    # the cancel that finally ends the task may be a later one that interrupted the cleanup
                    if isinstance(d, TaskCancelled) and d.args not in [(c[2]['token'],) for c in cancels]:
                        msgs.append('%s got TaskCancelled%r, not the token of any requested cancel' % (act, d.args))
                        break
                    continue
                if isinstance(d, TaskCancelled) and d.args != (info['token'],):
                    msgs.append('%s got TaskCancelled%r, expected the token of the first cancel %r' % (act, d.args, info['token']))
                    break
    else:
        if final == 'CANCELLED':
            msgs.append('the task is CANCELLED although nobody cancelled it before it was done')
    # (6) parent and siblings
    sib = [r for r in log if r[1] == 'sib' and r[0] == 'end' and r[2] == (1,)]
    scope_exc = [r for r in log if r[0] == 'caught' and r[1] == 'root' and r[2] == (0,)]
    if final == 'FAILED':
        if not scope_exc or not isinstance(scope_exc[0][4], Concurrent) or \
                not any(c is x for c in scope_exc[0][4].children for x in payload_exc):
            msgs.append('the victim failed but its scope did not raise Concurrent with that failure: %r' % (scope_exc,))
    else:
        if scope_exc:
            msgs.append('cancelling/finishing a child made its parent scope raise %r' % (scope_exc[0][4],))
        if not program.get('_special') and any(op[1] == 'sib' for op in program['roots'][0][1][0][1][0][2]):
            if not sib or sib[0][4] != 2:
                msgs.append('the sibling did not finish undisturbed at time 2: %r' % (sib,))
    if not any(r[0] == 'finish' and r[1] == 'root' for r in log):
        msgs.append('the root never finished')
    return msgs


def op_of(log, idx):
    kind, act, pc, now, data = log[idx]
    i = start_of(log, idx)
    return log[i][4] if i is not None else None


def start_of(log, idx):
    kind, act, pc, now, data = log[idx]
    for i in range(idx - 1, -1, -1):
        if log[i][0] == 'start' and log[i][1] == act and log[i][2] == pc:
            return i
    return None


def check_exec(program, faults=()):
    snaps = []

    def observe(ctx, loop, k):
        t = ctx.tasks.get('v')
        snaps.append((k, t.status.name if t is not None else None, loop.time))
    ctx = run_one(program, faults, observe=observe)
    msgs = lifecycle(ctx, snaps, program, faults)
    msgs += kernel_health(ctx)
    if ctx.outcome is not None:
        msgs.append('run() raised %r' % (ctx.outcome,))
    return ctx, msgs, snaps


def explore_case(program, tier):
    rep = {'execs': 0, 'nontrivial': 0, 'outcomes': {}, 'viol': [], 'counters': {}}

    def one(faults):
        ctx, msgs, snaps = check_exec(program, faults)
        rep['execs'] += 1
        inj = [r for r in ctx.log if r[0] == 'inject' and r[1] == 'v']
        rep['nontrivial'] += int(any(r[4]['status'].name in ('CREATED', 'RUNNING') for r in inj))
        key = '%s/%s' % (ctx.tasks['v'].status.name if 'v' in ctx.tasks else 'none',
                         ','.join(r[4]['status'].name for r in inj) or 'nocancel')
        rep['outcomes'][key] = rep['outcomes'].get(key, 0) + 1
        if msgs:
            rep['viol'].append({'faults': faults, 'msgs': msgs})
        return ctx

    bounds = []
    ctx0 = run_one(program, (), observe=F.observer(bounds))
    one([])
    if rep['viol']:
        return rep      # the fault-free run already violates: report it, do not multiply it
    pts, skipped = F.cancel_points(ctx0, bounds, victims=['v'], include_done=True)
    rep['counters']['boundaries_skipped_internal'] = skipped
    two = tier == 'thorough' or program.get('_special') or sum(1 for op in program['roots'][0][1][0][1][0][2] if op[1].startswith('w')) == 1
    for k, v in pts:
        f1 = {'k': k, 'kind': 'cancel', 'victim': v, 'token': 'first'}
        if not two:
            one([f1])
            continue
        b2 = []
        c1 = run_one(program, [f1], observe=F.observer(b2))
        one([f1])
        p2, _ = F.cancel_points(c1, [b for b in b2 if b[0] >= k], victims=['v'], include_done=True)
        for k2, v2 in p2:
            one([f1, {'k': k2, 'kind': 'cancel', 'victim': v2, 'token': 'second'}])
    return rep


def replay(case, faults):
    return check_exec(case, faults)[1]
