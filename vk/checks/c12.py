"""C12 - Resources are conserved: never negative, never leaked, claims never wait."""
import collections
import itertools
from usim import ResourcesUnavailable
from ..run import run_one
from ..oracles import kernel_health, containment
from .. import faults as F

PROPERTY = 'C12'
LEVEL = 'fault_enumeration'
RULE = ('every program of 1-3 users (borrow/claim, amounts 1-2 of 1-2 named resources, hold none/instant/+1, nested '
        'borrow from the borrowed share, arrival 0/+1) and an optional helper (increase/decrease/set) on Capacities and '
        'Resources supplies, plus one borrow/claim context object entered twice (concurrently, again after it was left), plus users that are children (one volatile) of a user\'s own scope; fault-free and with one deviation: cancel at every activation boundary of every user, '
        'until-interrupt / forceful close of one user and forceful close of all users at once swept over every position '
        'of every FIFO round. Oracle: at EVERY activation boundary supply - in_flight <= available <= supply - held and '
        'available >= 0, claims never wait and fail exactly when unavailable, available == supply at the end, every borrowed share has levels '
        'within [0, borrowed amount] at every boundary and holds nothing once its block is left; '
        'non-trivial = a user had to wait, a claim was refused, or a fault hit a user while acquiring/holding/releasing')
ASSUMPTIONS = [
    'supplies Capacities(a=2), Resources(a=2), Resources(a=2,b=1); amounts <= 2; <= 3 users, one helper',
    'after Resources.set() the supply is only known up to what was in flight at that moment (range tracked)',
    'Resources.decrease() raising its usage assertion (level would drop below zero) is accepted, not judged',
]

SUPPLIES = {'cap2': ['Capacities', {'a': 2}], 'res2': ['Resources', {'a': 2}], 'res21': ['Resources', {'a': 2, 'b': 1}]}


def user(arrival, how, amounts, hold, nested):
    s = [['D', 1]] if arrival else []
    body = [] if hold is None else ([['INSTANT']] if hold == 'i' else [['D', hold]])
    if nested:
        body = [['BORROW', '@', {'a': 1}, [['INSTANT']]]] + body
    blk = [how, 'r', amounts, body]
    s.append(['TRY', [blk]] if how == 'CLAIM' else blk)
    return s


def helpers(kind):
    if kind == 'cap2':
        return [None]
    return ([None, [['INC', 'r', {'a': 1}]], [['D', 1], ['INC', 'r', {'a': 1}], ['INSTANT'], ['TRY', [['DEC', 'r', {'a': 1}]]]],
            [['INSTANT'], ['RSET', 'r', {'a': 2}]], [['TRY', [['DEC', 'r', {'a': 1}]]], ['D', 1], ['INC', 'r', {'a': 1}]],
            # levels set to zero (drained) and back, set above the initial supply, changes by zero
            [['RSET', 'r', {'a': 0}], ['D', 1], ['RSET', 'r', {'a': 2}]],
            [['D', 1], ['RSET', 'r', {'a': 0}], ['INC', 'r', {'a': 0}], ['INSTANT'], ['RSET', 'r', {'a': 3}], ['TRY', [['DEC', 'r', {'a': 0}]]]]]
            + ([[['RSET', 'r', {'b': 0}], ['D', 1], ['RSET', 'r', {'a': 0, 'b': 1}], ['D', 1], ['RSET', 'r', {'a': 2}]],
                # ONE change that raises one level and lowers another (levels are only partially ordered)
                [['RSET', 'r', {'a': 0}], ['D', 1], ['RSET', 'r', {'a': 2, 'b': 0}], ['D', 1], ['RSET', 'r', {'a': 1, 'b': 1}], ['D', 1], ['RSET', 'r', {'a': 2, 'b': 1}]],
                [['D', 1], ['RSET', 'r', {'a': 0, 'b': 2}], ['D', 1], ['RSET', 'r', {'a': 3, 'b': 0}], ['D', 1], ['RSET', 'r', {'a': 2, 'b': 1}]]] if kind == 'res21' else []))


def program(supply, users, helper):
    kids = [['DO', 'u%d' % (i + 1), s] for i, s in enumerate(users)]
    if helper:
        kids.append(['DO', 'h', helper])
    return {'objs': {'r': SUPPLIES[supply]}, '_nops': 40, '_supply': supply,
            'roots': [['root', [['SCOPE', 's', kids], ['PROBE', 'levels', 'r'], ['D', 1], ['PROBE', 'levels', 'r']]]]}


def BOUNDS(tier):
    return {'quick': {'users': '1-2 (20 variants) and 3 (6 variants)', 'deviations': 1},
            'thorough': {'users': '1-2 (36 variants) and 3 (12 variants)', 'deviations': 1}}[tier]


def cases(tier):
    out = []
    thorough = tier == 'thorough'
    for supply in SUPPLIES:
        amts = [{'a': 1}, {'a': 2}] + ([{'a': 1, 'b': 1}, {'a': 2, 'b': 1}] if supply == 'res21' else [])
        if supply == 'res21':
            amts = [{'a': 2}, {'a': 1, 'b': 1}, {'a': 2, 'b': 1}]
        holds = (None, 'i', 1) if thorough else (None, 1)
        U = [user(a, how, am, h, False) for a in (0, 1) for how in ('BORROW', 'CLAIM') for am in amts for h in holds]
        U += [user(a, 'BORROW', {'a': 2}, h, True) for a in (0, 1) for h in (None, 1)]
        # claims that are created one time unit before they are entered
        U += [[['TRY', [['CLAIMLATE', 'r', am, 1, [['D', 1]]]]]] for am in amts[:2]]
        U3 = [user(a, how, am, 1 if how == 'BORROW' else None, False) for a in (0, 1) for how in ('BORROW', 'CLAIM')
              for am in (amts[:2] if not thorough else amts)][:12 if thorough else 6]
        for h in helpers(supply):
            for u in U:
                out.append(program(supply, [u], h))
            pairs = U if (thorough or h is None) else U[::3]
            for u1, u2 in itertools.product(pairs, pairs):
                out.append(program(supply, [u1, u2], h))
        for h in (helpers(supply)[:2] if thorough else [None]):
            tri = U3 if (thorough or supply != 'res21') else U3[:3]
            for u1, u2, u3 in itertools.product(tri, tri, tri):
                if not thorough and u1[-1][0] == 'TRY' and u2[-1][0] == 'TRY' and u3[-1][0] == 'TRY':
                    continue
                out.append(program(supply, [u1, u2, u3], h))
    # users that are the children of an activity's own scope - one of them volatile, holding until that scope ends; the
    # owner is cancelled / interrupted / closed at every boundary, also while it waits for its children at the end of its block
    for supply in ('cap2', 'res2'):
        for reg in ([['BORROW', 'r', {'a': 1}, [['D', 2]]]], [['D', 1], ['BORROW', 'r', {'a': 1}, [['D', 1]]]],
                    [['TRY', [['CLAIM', 'r', {'a': 1}, [['D', 2]]]]]]):
            for vol in ([['BORROW', 'r', {'a': 1}, [['ETERNITY']]]], [['D', 1], ['BORROW', 'r', {'a': 1}, [['D', 5]]]]):
                for tail in ([], [['D', 1]]):
                    for other in (None, user(1, 'BORROW', {'a': 2}, 1, False)):
                        inner = [['DO', 'g1', reg], ['DO', 'g2', vol, {'volatile': True}]] + tail
                        owner = [['SCOPE', 'in', inner], ['PROBE', 'levels', 'r']]
                        p = program(supply, [owner] + ([other] if other else []), None)
                        out.append(p)
    # one borrow / claim context OBJECT that is entered by two activities at once, or again after it was left
    for supply in ('cap2', 'res2'):
        for how in ('Borrow', 'Claim'):
            for amount in (1, 2):
                slot = {'slot': [how, 'r', {'a': amount}]}
                wrap = (lambda ops: [['TRY', ops]]) if how == 'Claim' else (lambda ops: ops)
                for u1 in (wrap([['ENTER', 'slot', [['D', 1]]]]), wrap([['ENTER', 'slot', [['D', 1]]]]) + wrap([['ENTER', 'slot', [['D', 1]]]]),
                           wrap([['ENTER', 'slot', [['BORROW', '@', {'a': 1}, [['INSTANT']]], ['D', 1]]]])):
                    for u2 in (wrap([['ENTER', 'slot', [['D', 2]]]]), [['D', 1]] + wrap([['ENTER', 'slot', [['D', 1]]]]),
                               [['D', 2]] + wrap([['ENTER', 'slot', [['BORROW', '@', {'a': 1}, [['D', 1]]]]]]),
                               user(0, 'BORROW', {'a': 1}, 1, False)):
                        p = program(supply, [u1, u2], None)
                        p['objs'].update(slot)
                        out.append(p)
    return out


def add(d, e, sign=1):
    r = dict(d)
    for k, v in e.items():
        r[k] = r.get(k, 0) + sign * v
    return r


def conservation(ctx, snaps, program, books=None):
    """check the bounds at every boundary. snaps = [(k, log length, levels dict)]"""
    msgs = []
    total0 = dict(SUPPLIES[program['_supply']][1])
    names = sorted(total0)
    log = ctx.log
    tlo, thi = dict(total0), dict(total0)
    phase = {}          # (act, pc) -> (phase, amounts)  only for blocks on the supply 'r'
    pos = 0
    zero = {n: 0 for n in names}
    waited = refused = False

    lingering = {}      # blocks left abnormally: their deferred hand-back may take until the end of that time step

    def sums(now=None):
        inflight, held = dict(zero), dict(zero)
        for ph, am in phase.values():
            inflight = add(inflight, am)
            if ph == 'held':
                held = add(held, am)
        for key in list(lingering):
            t, am = lingering[key]
            if now is not None and now != t:
                del lingering[key]
            else:
                inflight = add(inflight, am)
        return inflight, held

    for k, loglen, levels, snap_time in snaps:
        while pos < loglen:
            kind, act, pc, now, data = log[pos]
            if kind.startswith('res-') and data[0] == 'r':
                am = {n: data[1].get(n, 0) for n in names}
                if kind == 'res-acquiring':
                    phase[(act, pc)] = ('acquiring', am)
                elif kind == 'res-held':
                    phase[(act, pc)] = ('held', am)
                elif kind == 'res-releasing':
                    phase[(act, pc)] = ('releasing', am)
                elif kind == 'res-gone':
                    gone = phase.pop((act, pc), None)
                    nxt = log[pos + 1] if pos + 1 < len(log) else None
                    if gone and nxt and nxt[0] == 'exc' and nxt[1] == act and nxt[2] == pc:
                        lingering[(act, pc, pos)] = (now, gone[1])
            elif kind == 'start' and data in ('INC', 'DEC', 'RSET'):
                op = op_at(program, act, pc)
                if op[1] == 'r':
                    am = {n: op[2].get(n, 0) for n in names}
                    if data == 'INC':
                        thi = add(thi, am)
                    elif data == 'DEC':
                        tlo = add(tlo, am, -1)
                    else:
                        inflight, held = sums()
                        for n in op[2]:
                            tlo[n] = op[2][n] + held[n]
                            thi[n] = op[2][n] + inflight[n]
            elif kind in ('end', 'exc') and log_op(log, pos) in ('INC', 'DEC'):
                op = op_at(program, act, pc)
                if op[1] == 'r':
                    am = {n: op[2].get(n, 0) for n in names}
                    ok = kind == 'end'
                    if op[0] == 'INC':
                        if ok:
                            tlo = add(tlo, am)
                        else:
                            pass      # interrupted increase: may or may not have happened (range stays)
                    else:
                        if ok:
                            thi = add(thi, am, -1)
                        elif isinstance(data, AssertionError):
                            tlo = add(tlo, am)       # refused: nothing happened
            pos += 1
        inflight, held = sums(snap_time)
        for n in names:
            v = levels[n]
            if v < 0:
                msgs.append('level %s = %r is negative at boundary %d (time %r)' % (n, v, k, log[loglen - 1][3] if loglen else None))
            if v < tlo[n] - inflight[n]:
                msgs.append('boundary %d: available %s=%r is below supply %r minus everything in flight %r: leaked' % (
                    k, n, v, tlo[n], inflight[n]))
            if v > thi[n] - held[n]:
                msgs.append('boundary %d: available %s=%r exceeds supply %r minus what is held %r' % (
                    k, n, v, thi[n], held[n]))
            # no unit is bookable twice: what the supply offers plus what all shares (nested ones too) offer never exceeds the
            # supply (a unit on its way back is offered by nobody). Not judged while an abnormally left block hands back in
            # separately scheduled activities (their order within that time step is the library's own idiom)
            if books and k in books and not lingering and books[k].get(n, 0) > thi[n]:
                msgs.append('boundary %d: %s is offered %r times in total (supply %r + all shares) but only %r exist: the same units are bookable twice' % (
                    k, n, books[k].get(n, 0), v, thi[n]))
            if msgs:
                return msgs, waited, refused
    return msgs, waited, refused


def log_op(log, pos):
    kind, act, pc, now, data = log[pos]
    for i in range(pos - 1, -1, -1):
        if log[i][0] == 'start' and log[i][1] == act and log[i][2] == pc:
            return log[i][4]
    return None


def op_at(program, act, pc):
    def find(script, name):
        for n, s in program['roots']:
            if n == name:
                return s
        stack = [s for _, s in program['roots']]
        while stack:
            sc = stack.pop()
            for op in sc:
                if op[0] == 'DO' and op[1] == name:
                    return op[2]
                for arg in op[1:]:
                    if isinstance(arg, list) and arg and isinstance(arg[0], list):
                        stack.append(arg)
        return None
    script = find(None, act)
    op = None
    for i in pc:
        if isinstance(i, int):
            op = script[i]
            subs = [a for a in op[1:] if isinstance(a, list) and (not a or isinstance(a[0], list))]
            script = subs[-1] if subs else []
    return op


def claims_ok(ctx, snaps, program):
    msgs = []
    refused = waited = False
    log = ctx.log
    by_k = {k: lv for k, _, lv, _ in snaps}
    open_claims = {}
    for idx, (kind, act, pc, now, data) in enumerate(log):
        if kind == 'res-acquiring':
            open_claims[(act, pc)] = (idx, now, data)
        elif kind in ('res-held',) and (act, pc) in open_claims:
            i0, t0, d = open_claims.pop((act, pc))
            if now != t0:
                waited = True
            if d[2] == 'claim' and d[0] == 'r':
                if now != t0:
                    msgs.append('%s: claim waited from %r to %r' % (act, t0, now))
                before = by_k.get(ctx.log_act[i0] - 1)
                if before is not None and any(before[n] < d[1].get(n, 0) for n in before):
                    msgs.append('%s: claim of %r succeeded although only %r was available' % (act, d[1], before))
        elif kind == 'exc' and (act, pc) in open_claims and isinstance(data, ResourcesUnavailable):
            i0, t0, d = open_claims.pop((act, pc))
            refused = True
            if now != t0 or ctx.log_act[idx] != ctx.log_act[i0]:
                msgs.append('%s: refused claim did not fail at once' % act)
            before = by_k.get(ctx.log_act[i0] - 1)
            if d[0] == 'r' and before is not None and all(before[n] >= d[1].get(n, 0) for n in before):
                msgs.append('%s: claim of %r was refused although %r was available' % (act, d[1], before))
        elif kind == 'res-gone':
            open_claims.pop((act, pc), None)
    return msgs, waited, refused


def share_levels(ctx, where, msgs):
    """the levels of every borrowed share: never negative, never above what the block borrowed"""
    for key, cm, amounts in getattr(ctx, 'shares', ()):
        lv = dict(cm.levels)
        for n, v in lv.items():
            if v < 0 and len(msgs) < 3:
                msgs.append('%s: the share borrowed at %r has level %s = %r' % (where, key, n, v))
            # (a named context object that several blocks have entered holds one amount per entry: no upper bound here)
            if key[1] != () and v > amounts.get(n, 0) and len(msgs) < 3:
                msgs.append('%s: the share borrowed at %r holds %s = %r, more than the %r it borrowed' % (where, key, n, v, amounts.get(n, 0)))


def check_exec(program, faults=()):
    snaps = []
    share_msgs = []

    share_snaps = []
    books = {}

    def observe(ctx, loop, k):
        snaps.append((k, len(ctx.log), dict(ctx.objs['r'].levels), loop.time))
        # what is bookable at this boundary: the supply's own levels plus the levels of every share handed out (nested ones too)
        book = dict(ctx.objs['r'].levels)
        for key, cm, amounts in getattr(ctx, 'shares', ()):
            for n, v in dict(cm.levels).items():
                book[n] = book.get(n, 0) + v
        books[k] = book
        tmp = []
        share_levels(ctx, 'end of time step %r' % (loop.time,), tmp)
        share_snaps.append((loop.time, tmp))
    ctx = run_one(program, faults, observe=observe)
    snaps.append((len(ctx.trace) + 1, len(ctx.log), dict(ctx.objs['r'].levels), 'quiescence'))
    msgs, _, _ = conservation(ctx, snaps, program, books)
    # (a block that is left abnormally hands back through separately scheduled activities: within that time step the share
    # may be out of bounds; what is judged is the state at the end of every time step)
    transient = []
    for i, (t, tmp) in enumerate(share_snaps):
        if tmp and (i + 1 == len(share_snaps) or share_snaps[i + 1][0] != t):
            share_msgs += tmp
            break
        if tmp and not transient:
            transient = ['within time step %r (back in bounds at its end): %s' % (t, m.split(': ', 1)[1]) for m in tmp if 'has level' in m][:1]
    msgs += share_msgs
    # at quiescence a share whose block has been left holds nothing any more
    entered = collections.Counter()
    for kind, act, pc, now, data in ctx.log:
        if kind == 'res-held':
            entered[(act, pc)] += 1
        elif kind == 'res-gone' and entered[(act, pc)]:
            entered[(act, pc)] -= 1
    if not any(entered.values()):
        for key, cm, amounts in getattr(ctx, 'shares', ()):
            if any(v != 0 for v in dict(cm.levels).values()):
                msgs.append('at the end the share borrowed at %r still holds %r although its block was left' % (key, dict(cm.levels)))
                break
    m2, waited, refused = claims_ok(ctx, snaps, program)
    msgs += m2
    msgs += kernel_health(ctx, ignore=lambda act, pc, x: isinstance(x, AssertionError) and 'decrease below zero' in str(x))
    msgs += containment(ctx, program)
    if ctx.outcome is not None:
        msgs.append('run() raised %r' % (ctx.outcome,))
    fin = [r for r in ctx.log if r[0] == 'finish' and r[1] == 'root']
    if not fin and not msgs:
        # somebody is blocked for ever; legitimate only for a borrower whose amount is not available at quiescence
        final = dict(ctx.objs['r'].levels)
        acquiring = {}
        for kind, act, pc, now, data in ctx.log:
            if kind == 'res-acquiring' and data[0] == 'r':
                acquiring[(act, pc)] = data[1]
            elif kind in ('res-held', 'res-gone'):
                acquiring.pop((act, pc), None)
        stuck = [(a, am) for (a, pc), am in acquiring.items() if all(final[n] >= v for n, v in am.items())]
        if stuck or not acquiring:
            msgs.append('run ended with the root unfinished; waiting although available: %r (levels %r)' % (stuck, final))
    if not msgs and transient:
        msgs = transient          # (reported only when nothing else is wrong: known finding C12/share-transient-negative)
    return ctx, msgs, (waited or refused)


def share_transient_negative(case, faults, msgs):
    """known finding: the share of a block that is left by an interrupt / close while a nested borrow from it is still being
    handed back (deferred hand-back) shows a negative level for a part of that time step"""
    return bool(msgs) and all(m.startswith('within time step') and 'has level' in m for m in msgs) and 'BORROW\', \'@\'' in repr(
        faults.get('program', case) if isinstance(faults, dict) else case)


MATCHERS = {'share_transient_negative': share_transient_negative}


def fault_hit(ctx, victim):
    depth = 0
    for kind, act, pc, now, data in ctx.log:
        if act == victim and kind == 'res-acquiring':
            depth += 1
        elif act == victim and kind == 'res-gone':
            depth -= 1
        elif kind == 'inject' and act == victim:
            return depth > 0
    return False


def explore_case(program, tier):
    rep = {'execs': 0, 'nontrivial': 0, 'outcomes': {}, 'viol': [], 'counters': {}}

    def one(prog, faults, label, victim=None):
        ctx, msgs, contended = check_exec(prog, faults)
        rep['execs'] += 1
        hit = fault_hit(ctx, victim) if (victim and faults) else contended
        rep['nontrivial'] += int(bool(hit))
        key = '%s/%s' % (label, 'contended' if contended else 'free')
        rep['outcomes'][key] = rep['outcomes'].get(key, 0) + 1
        if msgs:
            rep['viol'].append({'faults': {'program': prog, 'faults': faults} if prog is not program else faults,
                                'msgs': msgs})
        return ctx

    bounds = []
    ctx0 = run_one(program, (), observe=F.observer(bounds))
    one(program, [], 'plain')
    if rep['viol']:
        return rep      # the fault-free run already violates: report it, do not multiply it
    pts, skipped = F.cancel_points(ctx0, bounds)
    rep['counters']['boundaries_skipped_internal'] = skipped
    for k, v in pts:
        one(program, [{'k': k, 'kind': 'cancel', 'victim': v, 'token': 'x'}], 'cancel', v)
    victims = [op[1] for op in program['roots'][0][1][0][2] if op[0] == 'DO' and op[1] != 'h']
    positions = F.attack_positions(ctx0, 0)
    for t, j in positions:
        one(F.abort_all_attack(program, t, j), [], 'closeall')
        for v in victims:
            one(F.until_attack(program, v, t, j, True), [], 'until')
            one(F.close_attack(program, v, t, j), [], 'close')
    return rep


def replay(case, faults):
    if isinstance(faults, dict):
        return check_exec(faults['program'], faults['faults'])[1]
    return check_exec(case, faults)[1]
