"""C03 - the kernel never fails on its own: no leaked signal, internal error or livelock."""
import itertools
import importlib
from ..run import run_one
from ..oracles import kernel_health
from .. import faults as F

PROPERTY = 'C03'
LEVEL = 'fault_enumeration'
RULE = ('the union corpus: every k-th program of the families of C01, C04/C05, C06, C07, C08, C09, C10, C11, C12, C13, C14, C16 '
        '(enumerated, strided, not sampled) plus the complete signal-race family (a victim waiting on a delay / already-true condition / '
        'passed moment inside & and | / flag / lock / queue / borrow / holding a lock while closing an activity that queues for it, inside 0-2 nested until-blocks whose notification is already '
        'true, fires in the same step, fires later or never); each fault-free and with a cancel at every activation boundary of every '
        'live task (thorough: two cancels on short programs), until-interrupt and forceful close swept over every queue position. '
        'Oracle (monitors only): what leaves run() is nothing or an exception object scenario code created (or a Concurrent of such); '
        'every exception scenario code observes is its own, a CancelTask for a requested cancel of that very task, or the signal of a '
        'scope open in that activity; no internal assertion/attribute/coroutine-misuse error; bounded activations per time step; '
        'FIFO/clock monitors. non-trivial = an injected signal landed while its victim was alive')
ASSUMPTIONS = [
    'valid programs only (the grammar cannot express API misuse); documented exceptions (StreamClosed, ResourcesUnavailable, '
    'ScopeClosed, IntervalExceeded, ValueError) are not internal errors',
    'livelock bound: 1000 + 200 x (number of operations) activations without clock progress',
    'known findings of C16 (first() leaking its scope signal into a slow consumer) are recognised here as well',
]

FAMILIES = [('c01', 400), ('c04', 40), ('c06', 12), ('c07', 25), ('c09', 40), ('c10', 50), ('c11', 60), ('c12', 60),
            ('c13', 100), ('c14', 40), ('c16', 60)]


def race_family():
    out = []
    waits = {
        'delay': ([['D', 1]], []),
        'true-flag': ([['WAIT', ['F', 'A']]], []),
        'past-and': ([['WAIT', ['AND', ['EQ', 0], ['F', 'B']]]], []),
        'past-or': ([['WAIT', ['OR', ['EQ', 0], ['F', 'B']]]], []),
        'flag': ([['WAIT', ['F', 'B']]], []),
        'lock': ([['LOCK', 'l', [['D', 1]]]], [['DO', 'holder', [['LOCK', 'l', [['D', 2]]]]]]),
        'get': ([['TRY', [['GET', 'q']]]], [['DO', 'putter', [['D', 2], ['PUT', 'q', 1]]]]),
        'borrow': ([['BORROW', 'r', {'a': 2}, [['D', 1]]]], [['DO', 'other', [['BORROW', 'r', {'a': 1}, [['D', 2]]]]]]),
        'scope': ([['SCOPE', 'vs', [['DO', 'g', [['D', 2]]], ['D', 1]]]], []),
        # the holder of a lock itself ends (closes) an activity that is queueing for that lock
        'lock-owner-closes-volatile': ([['LOCK', 'l', [['SCOPE', 'vs', [['DO', 'g', [['LOCK', 'l', [['D', 1]]]], {'volatile': True}],
                                                                      ['D', 1]]], ['D', 1]]]], []),
        'lock-owner-closes-until': ([['LOCK', 'l', [['UNTIL', 'vu', ['DELAY', 1], [['DO', 'g', [['LOCK', 'l', []]]], ['ETERNITY']]],
                                                    ['D', 1]]]], [['DO', 'holder', [['D', 1], ['LOCK', 'l', [['D', 1]]]]]]),
    }
    notifs = [['GE', 0], ['DELAY', 1], ['F', 'C'], ['EQ', 2], ['DELAY', 3], ['ETERNITY'], ['F', 'A']]
    nests = [[]] + [[n] for n in notifs] + [[a, b] for a in notifs for b in notifs]
    for wname, (wait, extra) in waits.items():
        for nest in nests:
            for pre in (0, 1):
                body = wait
                for i, n in enumerate(reversed(nest)):
                    body = [['UNTIL', 'u%d' % i, n, body]]
                victim = ([['D', pre]] if pre else []) + body + [['D', 1], ['PROBE', 'now']]
                helper = [['SET', 'A', True], ['EQ', 2], ['SET', 'C', True], ['SET', 'B', True]]
                kids = [['DO', 'helper', helper]] + extra + [['DO', 'victim', victim, {'volatile': True}], ['D', 5]]
                out.append({'objs': {'A': 'Flag', 'B': 'Flag', 'C': 'Flag', 'l': 'Lock', 'q': 'Queue', 'r': ['Resources', {'a': 2}]},
                            '_nops': 40, '_family': 'race', 'roots': [['root', [['SCOPE', 'm', kids], ['PROBE', 'now']]]]})
    return out


def twice_family():
    """ONE activity holding two registrations on the same object at once: receiving from a channel / queue inside the body of an
    iteration over the same stream (also a nested iteration), waiting for the flag that guards the enclosing until block,
    borrowing twice from one supply - next to a second consumer and with the stream closed, the task cancelled or closed"""
    out = []
    for stream in ('Channel', 'Queue'):
        inners = {'get': [['TRY', [['GET', 'ch']]]], 'iter1': [['ITER', 'ch', 1, []]], 'get-delay': [['D', 1], ['TRY', [['GET', 'ch']]]]}
        for iname, inner in inners.items():
            for nmsg in (2, 3, 4):
                for gap in (0, 1):
                    for volatile in (False, True):
                        prod = [x for i in range(nmsg) for x in ([['D', 1]] if gap and i else []) + [['TRY', [['PUT', 'ch', 'm%d' % i]]]]]
                        kids = [['DO', 'c1', [['ITER', 'ch', None, inner], ['PROBE', 'now']]] + ([{'volatile': True}] if volatile else []),
                                ['DO', 'c2', [['ITER', 'ch', None, []]]],
                                ['DO', 'p', [['D', 1]] + prod],
                                ['D', 4], ['TRY', [['CLOSE', 'ch']]]]
                        out.append({'objs': {'ch': stream}, '_nops': 60, '_family': 'twice',
                                    'roots': [['root', [['SCOPE', 'm', kids], ['PROBE', 'now']]]]})
    for hold in (0, 1):
        kids = [['DO', 'v', [['UNTIL', 'u', ['F', 'B'], [['WAIT', ['F', 'B']], ['D', 1]]], ['PROBE', 'now']]],
                ['DO', 'b', [['BORROW', 'r', {'a': 1}, [['BORROW', 'r', {'a': 1}, [['D', hold]]], ['D', hold]]], ['PROBE', 'levels', 'r']]],
                ['DO', 'h', [['D', 1], ['SET', 'B', True]]], ['D', 3]]
        out.append({'objs': {'B': 'Flag', 'r': ['Resources', {'a': 2}]}, '_nops': 60, '_family': 'twice',
                    'roots': [['root', [['SCOPE', 'm', kids], ['PROBE', 'now']]]]})
    return out


def BOUNDS(tier):
    return {'quick': {'strides': dict(FAMILIES), 'deviations': '1; 2 on programs with <= 12 activations'},
            'thorough': {'strides': {k: max(1, v // 6) for k, v in FAMILIES}, 'deviations': '1; 2 on programs with <= 25 activations'}}[tier]


def cases(tier):
    out = []
    for name, stride in FAMILIES:
        mod = importlib.import_module('vk.checks.' + name)
        progs = mod.cases('quick')
        if tier == 'thorough':
            stride = max(1, stride // 6)
        for p in progs[::stride]:
            if isinstance(p, dict) and p.get('kind') == 'algebra':
                continue
            prog = p['prog'] if isinstance(p, dict) and 'prog' in p else p
            q = dict(prog)
            q['_family'] = name
            out.append(q)
    import importlib as _il
    for sp in _il.import_module('vk.checks.c06').special_programs():
        q = dict(sp)
        q['_family'] = 'c06'
        out.append(q)
    # delays below the resolution of a large clock value (now + d == now): valid, must not trip an internal assertion
    c01 = importlib.import_module('vk.checks.c01')
    for p in c01.cases('quick'):
        if isinstance(p.get('start'), (int, float)) and p.get('start', 0) >= 10 ** 9:
            q = dict(p)
            q['_family'] = 'c01'
            out.append(q)
    out += race_family()
    out += twice_family()
    return out


def ignore(act, pc, x):
    return isinstance(x, AssertionError) and 'decrease below zero' in str(x)


def known_c16(program):
    meta = program.get('_meta') or {}
    return (program.get('_family') == 'c16' and meta.get('kind') == 'first' and meta.get('consumer') == 'slow'
            and any(a[1] == 'fail' for a in meta.get('acts', ())))


def check_exec(program, faults=()):
    ctx = run_one(program, faults)
    allow_leak = 'RETURN' in repr(program['roots'])
    msgs = kernel_health(ctx, allow_leak=allow_leak, ignore=ignore)
    return ctx, msgs


def victims_of(program):
    out = []

    def walk(script):
        for op in script:
            if op[0] == 'DO' and not op[1].startswith('atk'):
                out.append(op[1])
                walk(op[2])
            for a in op[1:]:
                if isinstance(a, list) and a and isinstance(a[0], list) and op[0] != 'DO':
                    walk(a)
    for n, s in program['roots']:
        walk(s)
    return out


def explore_case(program, tier):
    rep = {'execs': 0, 'nontrivial': 0, 'outcomes': {}, 'viol': [], 'counters': {}}
    fam = program.get('_family', '?')

    def one(prog, faults, label):
        ctx, msgs = check_exec(prog, faults)
        rep['execs'] += 1
        hit = any(r[0] == 'inject' and r[4]['status'].name in ('CREATED', 'RUNNING') for r in ctx.log) or label in ('until', 'close')
        rep['nontrivial'] += int(hit)
        k = '%s/%s/%s' % (fam, label, 'exc' if ctx.outcome is not None else 'ok')
        rep['outcomes'][k] = rep['outcomes'].get(k, 0) + 1
        if msgs:
            rep['viol'].append({'faults': {'program': prog, 'faults': faults} if prog is not program else faults, 'msgs': msgs})
        return ctx

    bounds = []
    ctx0 = run_one(program, (), observe=F.observer(bounds))
    one(program, [], 'plain')
    if rep['viol']:
        return rep
    pts, skipped = F.cancel_points(ctx0, bounds)
    rep['counters']['boundaries_skipped_internal'] = skipped
    two = len(ctx0.trace) <= (25 if tier == 'thorough' else 12)
    for k, v in pts:
        f1 = {'k': k, 'kind': 'cancel', 'victim': v, 'token': 'x'}
        if two:
            b2 = []
            c1 = run_one(program, [f1], observe=F.observer(b2))
            one(program, [f1], 'cancel')
            for k2, v2 in F.cancel_points(c1, [b for b in b2 if b[0] >= k])[0]:
                one(program, [f1, {'k': k2, 'kind': 'cancel', 'victim': v2, 'token': 'y'}], 'cancel2')
        else:
            one(program, [f1], 'cancel')
    top = [op[1] for n, s in program['roots'] for op in _top_dos(s)]
    positions = F.attack_positions(ctx0, program.get('start', 0))
    if fam != 'race' and tier == 'quick':
        positions = positions[::2]
    for v in top:
        for t, j in positions:
            try:
                one(F.until_attack(program, v, t, j, True), [], 'until')
                one(F.close_attack(program, v, t, j), [], 'close')
            except ValueError:
                pass
    return rep


def _top_dos(script):
    for op in script:
        if op[0] == 'DO':
            yield op
        elif op[0] in ('SCOPE', 'TRY', 'UNTIL'):
            sub = op[2] if op[0] == 'SCOPE' else (op[1] if op[0] == 'TRY' else op[3])
            yield from _top_dos(sub)


def replay(case, faults):
    if isinstance(faults, dict):
        return check_exec(faults['program'], faults['faults'])[1]
    return check_exec(case, faults)[1]


def c16_first_failure(case, faults, msgs):
    prog = faults['program'] if isinstance(faults, dict) else case
    if not known_c16(case) and not known_c16(prog):
        return False
    allowed = ('observed the signal of a scope that is not open', "'Concurrent' may only be specialised by Exception subclasses")
    return all(any(a in m for a in allowed) for m in msgs)


def closed_held_ticker(case, faults, msgs):
    """known finding: a task is closed forcefully while it iterates an interval()/delay() iterator that is also
    referenced from a variable (so that it is not finalised with the task); only the stale wake-up symptom matches"""
    prog = faults['program'] if isinstance(faults, dict) else case
    txt = repr(prog['roots'])

    def held(script):
        if isinstance(script, list):
            if len(script) >= 5 and script[0] in ('INTERVAL', 'DELAYLOOP') and script[4]:
                return True
            return any(held(x) for x in script)
        return False
    if not held(prog['roots']):
        return False
    return all('cannot reuse already awaited coroutine' in m for m in msgs)


MATCHERS = {'c16_first_failure': c16_first_failure, 'closed_held_ticker': closed_held_ticker}
