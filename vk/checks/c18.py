"""C18 - SimPy layer: events fire once; processes resume with the right value and time."""
import itertools
import usim
from usim import Scope, time, Flag, until as usim_until
usim_Scope = Scope
import usim.py as simpy
from usim.py.exceptions import Interrupt

PROPERTY = 'C18'
LEVEL = 'model_checking'
STATES_FROM_COUNTERS = ('model_states', 'model_transitions')
RULE = ('every program of 2 processes (3 in some families) with <= 2-3 operations each from 5 families (events: timeout/wait/'
        'succeed/fail incl. events fired before they are waited for and double triggers; interrupts; AllOf/AnyOf; sub-processes with '
        'return values and failures, also generators that end before their first yield; yielded native delays/flags/coroutines), '
        'for until in {None, time 0/2, an event, a process}, standalone (env.run) and embedded in a native simulation next to a native '
        'activity awaiting the same events. Reference: a nondeterministic interpreter of the SimPy semantics at the level the '
        'property speaks about (values, exceptions and virtual times per process step, fire time/value per event, callback counts, '
        'result of run); the model checker explores ALL orders of enabled steps inside a time step and the implementation\'s outcome '
        'must be a member of the resulting set. non-trivial = the program contains a wait that has to wait, an interrupt, a '
        'condition event, a failure, or a double trigger')
ASSUMPTIONS = [
    'the reference interpreter leaves open only what SimPy leaves open: the order of simultaneously enabled steps within one '
    'virtual time; it never compares turn order',
    'when a run ends by an unhandled failure only the raised exception is compared (what else happened in that last time step is open)',
]
INF = float('inf')


# ---- program text -------------------------------------------------------------------------------------
def target_key(t, owner):
    return tuple(t) if t[0] in ('e', 'p') else ('t',) + owner + tuple(t[1:])


# ---- the reference interpreter (nondeterministic; one run follows a list of choices) ------------------
class Crash(Exception):
    pass


class S:
    """one state of the reference interpreter"""
    __slots__ = ('now', 'fired', 'defused', 'timers', 'conds', 'st', 'nat', 'flags', 'done', 'result', 'settled')

    def copy(self):
        c = S()
        c.now = self.now
        c.fired = dict(self.fired)
        c.defused = set(self.defused)
        c.timers = [list(t) for t in self.timers]
        c.conds = {k: dict(v) for k, v in self.conds.items()}
        c.st = {p: {'pc': v['pc'], 'status': v['status'], 'wait': v['wait'], 'irqs': list(v['irqs']), 'obs': list(v['obs']), 'mark': v['mark']}
                for p, v in self.st.items()}
        c.nat = {n: dict(v, obs=list(v['obs'])) for n, v in self.nat.items()}
        c.flags = dict(self.flags)
        c.done = self.done
        c.result = self.result
        c.settled = set(self.settled)
        return c

    def key(self):
        return repr((self.now, sorted(self.fired.items(), key=repr), sorted(self.defused, key=repr), sorted(self.timers, key=repr),
                     sorted((k, sorted(v.items(), key=repr)) for k, v in self.conds.items()),
                     sorted((p, sorted(v.items(), key=repr)) for p, v in self.st.items()),
                     sorted((n, sorted(v.items(), key=repr)) for n, v in self.nat.items()), sorted(self.flags.items()),
                     sorted(self.settled, key=repr)))


class Interp:
    def __init__(self, program):
        self.program = program
        self.procs = [n for n, _ in program['procs']]
        self.ops = dict((n, o) for n, o in program['procs'])
        self.nops = dict((n, o) for n, o in program.get('natives', []))
        self.until = program.get('until')
        self.chains = [tuple(c) for c in program.get('chains', [])]
        # watchdog idiom: a callback of an event interrupts a process - [event, process, cause]
        self.watchdogs = [tuple(c) for c in program.get('watchdogs', [])]

    def initial(self):
        s = S()
        s.now = self.program.get('initial', 0)
        s.fired, s.defused, s.timers, s.conds, s.flags, s.settled = {}, set(), [], {}, {}, set()
        s.st = {p: {'pc': 0, 'status': 'new', 'wait': None, 'irqs': [], 'obs': [], 'mark': None} for p in self.procs}
        s.nat = {n: {'pc': 0, 'status': 'new', 'wait': None, 'obs': [], 'slept': -1} for n in self.nops}
        s.done = False
        s.result = None
        return s

    # -- helpers ------------------------------------------------------------------------------------------
    def wake(self, s, key):
        for v in list(s.st.values()) + list(s.nat.values()):
            if v['status'] == 'waiting' and v['wait'] == key:
                v['status'] = 'ready'
                # a yielded native awaitable that completes before any interrupt arrives delivers its value;
                # an interrupt arriving afterwards waits for the next yield (first signal wins)
                if key[0] in ('n', 'f') and not v.get('irqs'):
                    v['mark'] = 'val'

    def fire(self, s, key, ok, value):
        s.fired[key] = (ok, value, s.now)
        self.wake(s, key)

    def make_cond(self, s, key, kind, targets):
        members = []
        for j, t in enumerate(targets):
            if t[0] == 't':
                mk = key + (j,)
                mk = ('t',) + mk[1:]
                s.timers.append([s.now + t[1], mk, True, t[2]])
                members.append(mk)
            elif t[0] == 'c':
                mk = key + (j,)
                self.make_cond(s, mk, t[1], t[2])
                members.append(mk)
            else:
                members.append(tuple(t))
        s.conds[key] = {'kind': kind, 'members': tuple(members), 'seen': -1}

    def flat(self, s, members):
        out = []
        for m in members:
            if m in s.conds:
                out += self.flat(s, s.conds[m]['members'])
            elif m in s.fired and s.fired[m][0]:
                out.append((m, s.fired[m][1]))
        return out

    def cond_eval(self, s, key):
        c = s.conds[key]
        got = [m for m in c['members'] if m in s.fired]
        c['seen'] = len(got)
        if key in s.fired:
            return
        bad = [m for m in got if not s.fired[m][0]]
        if bad:
            s.defused.add(bad[0])
            self.fire(s, key, False, s.fired[bad[0]][1])
            return
        need = len(c['members']) if c['kind'] == 'allof' else (1 if c['members'] else 0)
        if len(got) >= need:
            self.fire(s, key, True, tuple(self.flat(s, c['members'])))

    def deliver(self, s, p):
        v = s.st[p]
        key = v['wait']
        if v['irqs'] and v['mark'] != 'val':
            v['obs'].append((s.now, ('irq', v['irqs'].pop(0))))
            if key is not None and key[0] == 'n':
                # the interrupted native awaitable is abandoned together with its timer
                s.timers = [t for t in s.timers if t[1] != key]
        elif key in s.fired:
            ok, value, _ = s.fired[key]
            if ok:
                v['obs'].append((s.now, ('val', value)))
            else:
                s.defused.add(key)
                op = self.ops[p][v['pc']]
                if op[0] == 'waitraise':
                    v['status'] = 'done'
                    self.fire(s, ('p', p), False, value)
                    return None
                v['obs'].append((s.now, ('exc', value)))
        else:
            v['status'] = 'waiting'
            return False
        v['pc'] += 1
        v['wait'] = None
        v['mark'] = None
        return True

    def run_proc(self, s, p):
        v = s.st[p]
        if v['status'] == 'ready':
            if self.deliver(s, p) is not True:
                return
        v['status'] = 'running'
        ops = self.ops[p]
        while True:
            if v['pc'] >= len(ops):
                v['status'] = 'done'
                self.fire(s, ('p', p), True, None)
                return
            op = ops[v['pc']]
            k = op[0]
            owner = (p, v['pc'])
            if k in ('succeed', 'fail'):
                key = ('e', op[1])
                if key in s.fired:
                    v['obs'].append((s.now, ('already',)))
                else:
                    self.fire(s, key, k == 'succeed', op[2])
                    v['obs'].append((s.now, ('ok',)))
                v['pc'] += 1
            elif k == 'interrupt':
                q = s.st[op[1]]
                if q['status'] != 'done':
                    q['irqs'].append(op[2])
                    if q['status'] == 'waiting':
                        q['status'] = 'ready'
                v['obs'].append((s.now, ('ok',)))
                v['pc'] += 1
            elif k == 'return':
                v['status'] = 'done'
                self.fire(s, ('p', p), True, op[1])
                return
            elif k == 'raise':
                v['status'] = 'done'
                self.fire(s, ('p', p), False, op[1])
                return
            else:
                if k == 'timeout':
                    key = ('t',) + owner
                    s.timers.append([s.now + op[1], key, True, op[2]])
                elif k in ('wait', 'waitraise'):
                    key = ('e', op[1])
                elif k == 'waitproc':
                    key = ('p', op[1])
                elif k in ('allof', 'anyof'):
                    key = ('c',) + owner
                    self.make_cond(s, key, k, op[1])
                elif k == 'native':
                    key = ('n',) + owner
                    if op[1] == 'delay':
                        s.timers.append([s.now + op[2], key, True, 'NATIVE'])
                    elif op[1] in ('coro', 'scoro'):
                        s.timers.append([s.now + op[2], key, True, op[3]])
                    elif op[1] == 'flag':
                        key = ('f', op[2])
                        if s.flags.get(op[2]) and key not in s.fired:
                            s.fired[key] = (True, 'NATIVE', s.now)
                else:
                    raise ValueError(op)
                v['wait'] = key
                # even if the target has fired already (or an interrupt is pending) the process only resumes in a
                # later step of this time step: other enabled steps may come first
                v['status'] = 'ready' if (v['irqs'] or key in s.fired) else 'waiting'
                v['mark'] = None
                return

    def run_native(self, s, n):
        v = s.nat[n]
        ops = self.nops[n]
        while True:
            if v['pc'] >= len(ops):
                v['status'] = 'done'
                return
            op = ops[v['pc']]
            k = op[0]
            if v['status'] == 'ready':
                key = v['wait']
                ok, value, _ = s.fired[key]
                if not ok:
                    s.defused.add(key)
                v['obs'].append((s.now, ('val', value) if ok else ('exc', value)))
                v['pc'] += 1
                v['status'] = 'running'
                v['wait'] = None
                continue
            if k == 'sleep':
                if v['slept'] == v['pc']:
                    v['pc'] += 1
                    continue
                s.timers.append([s.now + op[1], ('ns', n, v['pc']), True, None])
                v['status'] = 'sleeping'
                return
            if k == 'setflag':
                s.flags[op[1]] = True
                self.fire(s, ('f', op[1]), True, 'NATIVE')
                v['pc'] += 1
                continue
            if k == 'succeed':
                key = ('e', op[1])
                if key in s.fired:
                    v['obs'].append((s.now, ('already',)))
                else:
                    self.fire(s, key, True, op[2])
                    v['obs'].append((s.now, ('ok',)))
                v['pc'] += 1
                continue
            if k in ('await', 'awaitproc'):
                key = ('e', op[1]) if k == 'await' else ('p', op[1])
                v['wait'] = key
                if key in s.fired:
                    v['status'] = 'ready'
                    continue
                v['status'] = 'waiting'
                return
            if k == 'awaitfor':
                # await the event inside until(time + d): the wait is abandoned after d (the abandoned event stays unhandled)
                if v.get('gaveup') == v['pc']:
                    v['obs'].append((s.now, ('gaveup',)))
                    v['pc'] += 1
                    continue
                key = ('e', op[1])
                v['wait'] = key
                if key in s.fired:
                    v['status'] = 'ready'
                    continue
                s.timers.append([s.now + op[2], ('ng', n, v['pc']), True, None])
                v['status'] = 'waiting'
                return
            raise ValueError(op)

    # -- transition relation ----------------------------------------------------------------------------------
    def enabled(self, s):
        en = []
        for p in self.procs:
            if s.st[p]['status'] in ('new', 'ready'):
                en.append(('run', p))
        for n in self.nops:
            if s.nat[n]['status'] in ('new', 'ready'):
                en.append(('native', n))
        due = sorted({tuple(t) for t in s.timers if t[0] <= s.now}, key=repr)
        for t in due:
            en.append(('timer', t))
        for key, c in s.conds.items():
            if key not in s.fired and c['seen'] != len([m for m in c['members'] if m in s.fired]):
                en.append(('cond', key))
        # the moment at which the fate of a failed event is settled: handled (defused) by then, or the run ends with it
        for key, (ok, value, _) in s.fired.items():
            if not ok and key not in s.settled and key[0] in ('e', 'p', 'c'):
                en.append(('settle', key))
        # callbacks of a fired event run at some later moment of the same time step: a chained event then fires too
        for src, dst in self.chains:
            if ('e', src) in s.fired and ('e', dst) not in s.fired:
                en.append(('chain', src, dst))
        for i, (src, proc, cause) in enumerate(self.watchdogs):
            if ('e', src) in s.fired and not s.flags.get('wd:%d' % i):
                en.append(('watchdog', i))
        if isinstance(self.until, (list, tuple)) and tuple(self.until) in s.fired:
            en.append(('stop',))
        return en

    def successors(self, s):
        """[(state or ('outcome', ...))]"""
        u = self.until
        at_start = isinstance(u, (int, float)) and u == self.program.get('initial', 0)
        if isinstance(u, (int, float)) and s.now >= u and not at_start:
            return [('end', self.outcome(s))]
        en = self.enabled(s)
        if at_start:
            # stopping at the very time the run starts: steps of that time may or may not happen before the stop,
            # but the clock never advances
            en.append(('stop',))
        if not en:
            future = [t[0] for t in s.timers]
            if not future:
                if isinstance(u, (int, float)) and u > s.now:
                    s = s.copy()
                    s.now = u           # running until a time always moves the clock there
                return [('end', self.outcome(s))]
            nxt = min(future)
            c = s.copy()
            if isinstance(u, (int, float)) and nxt >= u:
                c.now = u
                return [('end', self.outcome(c))]
            c.now = nxt
            return [('state', c)]
        out = []
        for tr in en:
            c = s.copy()
            if tr[0] == 'run':
                if c.st[tr[1]]['status'] == 'new':
                    c.st[tr[1]]['status'] = 'running'
                self.run_proc(c, tr[1])
            elif tr[0] == 'native':
                self.run_native(c, tr[1])
            elif tr[0] == 'timer':
                t = list(tr[1])
                c.timers.remove(t)
                if t[1][0] == 'ns':
                    v = c.nat[t[1][1]]
                    v['slept'] = v['pc']
                    v['status'] = 'new'
                elif t[1][0] == 'ng':
                    v = c.nat[t[1][1]]
                    if v['status'] == 'waiting' and v['pc'] == t[1][2]:
                        v['gaveup'] = v['pc']
                        v['wait'] = None
                        v['status'] = 'new'
                else:
                    self.fire(c, t[1], t[2], t[3])
            elif tr[0] == 'cond':
                self.cond_eval(c, tr[1])
            elif tr[0] == 'chain':
                ok, value, _ = c.fired[('e', tr[1])]
                self.fire(c, ('e', tr[2]), ok, value)
            elif tr[0] == 'watchdog':
                _, proc, cause = self.watchdogs[tr[1]]
                c.flags['wd:%d' % tr[1]] = True
                q = c.st[proc]
                if q['status'] != 'done':       # (ignored for a finished process)
                    q['irqs'].append(cause)
                    if q['status'] == 'waiting':
                        q['status'] = 'ready'
            elif tr[0] == 'settle':
                key = tr[1]
                c.settled.add(key)
                if key not in c.defused and not (key[0] == 'e' and key[1] in self.program.get('defuse', ())):
                    out.append(('end', (('raised', c.fired[key][1]), None, None, None)))
                    continue
            elif tr[0] == 'stop':
                out.append(('end', self.outcome(c)))
                continue
            out.append(('state', c))
        return out

    def outcome(self, s):
        u = self.until
        if isinstance(u, (list, tuple)):
            key = tuple(u)
            if key in s.fired:
                res = ('returned', s.fired[key][1]) if s.fired[key][0] else ('returned-exc', s.fired[key][1])
            else:
                res = ('raised', 'RuntimeError')
        else:
            res = ('returned', None)
        obs = tuple((p, tuple(s.st[p]['obs'])) for p in self.procs)
        nobs = tuple((n, tuple(s.nat[n]['obs'])) for n in self.nops)
        return (res, obs, nobs, s.now)


def model_outcomes(program, cap=30000):
    it = Interp(program)
    s0 = it.initial()
    seen = {s0.key()}
    stack = [s0]
    outcomes = set()
    transitions = 0
    while stack:
        s = stack.pop()
        for kind, x in it.successors(s):
            transitions += 1
            if kind == 'end':
                outcomes.add(x)
            else:
                k = x.key()
                if k not in seen:
                    seen.add(k)
                    stack.append(x)
        if len(seen) > cap:
            return None, len(seen), transitions
    return outcomes, len(seen), transitions


# ---- the real thing -----------------------------------------------------------------------------------
def cond_value(program, owner, op, cv, made):
    out = []
    for j, t in enumerate(op[1]):
        ev = made[j]
        if ev in cv:
            key = tuple(t) if t[0] in ('e', 'p') else ('t',) + owner + (j,)
            out.append((key, cv[ev]))
    return tuple(out)


_FAILS = {}


class Fail(KeyError):
    """the failures of the scenario: their constructor does not accept .args, so a copy `type(f)(*f.args)` cannot be made, and
    every object made is remembered so that a waiter can tell the very object from a look-alike"""
    def __init__(self, label, origin):
        KeyError.__init__(self, label)
        self.origin = origin


def mkfail(label):
    f = Fail(label, 'scenario')
    _FAILS.setdefault(label, []).append(f)
    return f


def lab(e):
    label = e.args[0] if e.args else None
    try:
        known = _FAILS.get(label, ())
    except TypeError:
        known = ()
    return label if any(e is f for f in known) else ('NOT-THE-FAILURE-OBJECT', repr(e))


def run_real(program):
    _FAILS.clear()
    kept_values = []       # (process, condition value, keys, what it showed when it was received)
    obs = {n: [] for n, _ in program['procs']}
    nobs = {n: [] for n, _ in program.get('natives', [])}
    cbcount = {}
    holder = {}

    def build(env, flags):
        events = {e: env.event() for e in program.get('events', ['e0', 'e1'])}
        procs = {}

        def body(name, ops):
            for pc, op in enumerate(ops):
                k = op[0]
                owner = (name, pc)
                try:
                    if k == 'timeout':
                        v = yield env.timeout(op[1], op[2])
                        obs[name].append((env.now, ('val', v)))
                    elif k == 'wait':
                        try:
                            v = yield events[op[1]]
                            obs[name].append((env.now, ('val', v)))
                        except KeyError as e:
                            obs[name].append((env.now, ('exc', lab(e))))
                    elif k == 'waitraise':
                        v = yield events[op[1]]
                        obs[name].append((env.now, ('val', v)))
                    elif k == 'waitproc':
                        try:
                            v = yield procs[op[1]]
                            obs[name].append((env.now, ('val', v)))
                        except KeyError as e:
                            obs[name].append((env.now, ('exc', lab(e))))
                    elif k in ('succeed', 'fail'):
                        try:
                            if k == 'succeed':
                                events[op[1]].succeed(op[2])
                            else:
                                events[op[1]].fail(mkfail(op[2]))
                            obs[name].append((env.now, ('ok',)))
                        except RuntimeError:
                            obs[name].append((env.now, ('already',)))
                    elif k == 'interrupt':
                        procs[op[1]].interrupt(op[2])
                        obs[name].append((env.now, ('ok',)))
                    elif k in ('allof', 'anyof'):
                        keys = {}

                        def make(kind, targets, key):
                            made = []
                            for j, t in enumerate(targets):
                                if t[0] == 't':
                                    ev = env.timeout(t[1], t[2])
                                    keys[ev] = ('t',) + key[1:] + (j,)
                                elif t[0] == 'c':
                                    ev = make(t[1], t[2], key + (j,))
                                elif t[0] == 'e':
                                    ev = events[t[1]]
                                    keys[ev] = ('e', t[1])
                                else:
                                    ev = procs[t[1]]
                                    keys[ev] = ('p', t[1])
                                made.append(ev)
                            return (simpy.AllOf if kind == 'allof' else simpy.AnyOf)(env, made)
                        try:
                            cv = yield make(k, op[1], ('c',) + owner)
                            obs[name].append((env.now, ('val', tuple((keys[ev], cv[ev]) for ev in cv))))
                            kept_values.append((name, cv, keys, tuple((keys[ev], cv[ev]) for ev in cv)))
                        except KeyError as e:
                            obs[name].append((env.now, ('exc', lab(e))))
                    elif k == 'native':
                        if op[1] == 'delay':
                            yield (time + op[2])
                            obs[name].append((env.now, ('val', 'NATIVE')))
                        elif op[1] == 'flag':
                            yield flags[op[2]]
                            obs[name].append((env.now, ('val', 'NATIVE')))
                        elif op[1] == 'coro':
                            async def coro(d=op[2], v=op[3]):
                                await (time + d)
                                return v
                            v = yield coro()
                            obs[name].append((env.now, ('val', v)))
                        elif op[1] == 'scoro':
                            # a native activity that waits inside scopes of its own (an until block and a scope with a child)
                            async def scoro(d=op[2], v=op[3]):
                                async def sleeper():
                                    await (time + d)
                                async with usim_until(time + 50):
                                    async with usim_Scope() as sc:
                                        sc.do(sleeper())
                                return v
                            v = yield scoro()
                            obs[name].append((env.now, ('val', v)))
                    elif k == 'return':
                        return op[1]
                    elif k == 'raise':
                        raise mkfail(op[1])
                except Interrupt as irq:
                    obs[name].append((env.now, ('irq', irq.cause)))
            return None
        for name, ops in program['procs']:
            procs[name] = env.process(body(name, ops))
        for src, dst in program.get('chains', []):
            events[src].callbacks.append(events[dst].trigger)
        for src, proc, cause in program.get('watchdogs', []):
            def bark(event, proc=proc, cause=cause):
                procs[proc].interrupt(cause)
            events[src].callbacks.append(bark)
        for name in program.get('defuse', []):
            # the supervision idiom: a callback that handles the failure of the event
            def handle(event):
                event.defused = True
            events[name].callbacks.append(handle)
        for key, ev in list(events.items()) + list(procs.items()):
            def cbk(event, key=key):
                cbcount[key] = cbcount.get(key, 0) + 1
            ev.callbacks.append(cbk)
        holder['events'], holder['procs'] = events, procs
        return events, procs

    def until_arg(events, procs):
        u = program.get('until')
        if isinstance(u, (list, tuple)):
            return events[u[1]] if u[0] == 'e' else procs[u[1]]
        return u

    result = None
    flags = {}
    try:
        if program.get('mode') == 'embedded':
            box = {}

            async def native(name, ops, env, events, procs):
                for op in ops:
                    k = op[0]
                    if k == 'sleep':
                        await (time + op[1])
                    elif k == 'setflag':
                        await flags[op[1]].set()
                    elif k == 'succeed':
                        try:
                            events[op[1]].succeed(op[2])
                            nobs[name].append((time.now, ('ok',)))
                        except RuntimeError:
                            nobs[name].append((time.now, ('already',)))
                    elif k in ('await', 'awaitproc'):
                        try:
                            v = await (events[op[1]] if k == 'await' else procs[op[1]])
                            nobs[name].append((time.now, ('val', v)))
                        except KeyError as e:
                            nobs[name].append((time.now, ('exc', lab(e))))
                    elif k == 'awaitfor':
                        got = []
                        try:
                            async with usim_until(time + op[2]):
                                got.append(('val', await events[op[1]]))
                        except KeyError as e:
                            got.append(('exc', lab(e)))
                        nobs[name].append((time.now, got[0] if got else ('gaveup',)))

            async def main():
                for f in ('f0',):
                    flags[f] = Flag()
                env = simpy.Environment(program.get('initial', 0))
                holder['env'] = env
                events, procs = build(env, flags)
                async with Scope() as scope:
                    for name, ops in program.get('natives', []):
                        scope.do(native(name, ops, env, events, procs))
                    await env.until(until_arg(events, procs))
                    box['now'] = env.now
                    holder['now'] = env.now
                    u = program.get('until')
                    if isinstance(u, (list, tuple)):
                        target = until_arg(events, procs)
                        if target.triggered:
                            box['result'] = ('returned', target.value) if target.ok else ('returned-exc', target.value.args[0])
                        else:
                            box['result'] = ('raised', 'RuntimeError')
                    else:
                        box['result'] = ('returned', None)
            from ..kernel import ExecTimer
            with ExecTimer():
                usim.run(main())
            holder.setdefault('now', holder['env'].now)
            u = program.get('until')
            # (if the environment never finished, run() ended at quiescence with main still inside env.until())
            result = box.get('result', ('raised', 'RuntimeError') if isinstance(u, (list, tuple)) else ('returned', None))
        else:
            for f in ('f0',):
                flags[f] = Flag()
            env = simpy.Environment(program.get('initial', 0))
            events, procs = build(env, flags)
            holder['env'] = env
            from ..kernel import ExecTimer
            try:
                with ExecTimer():
                    value = env.run(until=until_arg(events, procs))
            finally:
                holder['now'] = env.now
            if isinstance(value, BaseException):
                result = ('returned-exc', value.args[0] if value.args else type(value).__name__)
            else:
                result = ('returned', value)
    except KeyError as e:
        return (('raised', lab(e)), None, None, None), cbcount, holder
    except RuntimeError as e:
        if "'until' event was not triggered" in str(e):
            result = ('raised', 'RuntimeError')
        else:
            return (('raised', 'RuntimeError:' + str(e)[:60]), None, None, None), cbcount, holder
    except BaseException as e:      # noqa
        return (('raised', type(e).__name__ + ':' + str(e)[:60]), None, None, None), cbcount, holder
    # a condition value is what had fired when the condition fired: looked at again after the run it shows the same
    for name, cv, keys, then in kept_values:
        try:
            now_ = tuple((keys[ev], cv[ev]) for ev in cv)
        except BaseException as e:      # noqa
            now_ = ('raised', repr(e))
        if now_ != then:
            obs[name].append(('after the run', ('condition value changed from', then, 'to', now_)))
    o = tuple((n, tuple(obs[n])) for n, _ in program['procs'])
    no = tuple((n, tuple(nobs[n])) for n, _ in program.get('natives', []))
    return (result, o, no, holder.get('now')), cbcount, holder


# ---- enumeration ----------------------------------------------------------------------------------------
def scripts(alphabet, maxlen):
    out = []
    for n in range(1, maxlen + 1):
        out += [list(s) for s in itertools.product(alphabet, repeat=n)]
    return out


def BOUNDS(tier):
    return {'quick': {'processes': 2, 'ops_per_process': 2},
            'thorough': {'processes': 2, 'ops_per_process': '3 and 2 (conditions: 3+1 over the flat operations, 2+2 over all); every program also embedded',
                         'model_state_cap': 30000}}[tier]


def cases(tier):
    thorough = tier == 'thorough'
    L = 3 if thorough else 2
    fams = {
        'events': ([['timeout', 0, 'z'], ['timeout', 1, 'a'], ['wait', 'e0'], ['succeed', 'e0', 'v'], ['fail', 'e0', 'x'],
                    ['succeed', 'e1', 'w'], ['wait', 'e1']], [None, 2, ['e', 'e0']]),
        'irq': ([['timeout', 1, 'a'], ['timeout', 2, 'b'], ['wait', 'e0'], ['interrupt', 'OTHER', 'c1'], ['interrupt', 'OTHER', 'c2'],
                 ['succeed', 'e0', 'v'], ['timeout', 0, 'z']], [None, 2]),
        'cond': ([['allof', [['t', 1, 'a'], ['e', 'e0']]], ['anyof', [['t', 1, 'a'], ['t', 2, 'b']]], ['anyof', [['e', 'e0'], ['e', 'e1']]],
                  ['allof', [['e', 'e0'], ['e', 'e1']]], ['allof', [['e', 'e0'], ['e', 'e1'], ['e', 'e0']]], ['anyof', []], ['timeout', 1, 'a'], ['succeed', 'e0', 'v'], ['succeed', 'e1', 'w'],
                  ['fail', 'e1', 'x'],
                  ['allof', [['c', 'anyof', [['t', 1, 'a'], ['t', 2, 'b']]], ['t', 3, 'c']]],
                  ['anyof', [['c', 'allof', [['t', 1, 'a'], ['e', 'e0']]], ['t', 2, 'c']]],
                  ['allof', [['c', 'anyof', [['e', 'e0'], ['t', 2, 'b']]], ['e', 'e1']]]], [None, ['e', 'e1']]),
        'proc': ([['waitproc', 'OTHER'], ['timeout', 1, 'a'], ['return', 7], ['return', 0], ['raise', 'boom'], ['timeout', 0, 'z'],
                  ['interrupt', 'OTHER', 'c']], [None, ['p', 'p0'], 0]),
        'chain': ([['wait', 'e0'], ['wait', 'e1'], ['succeed', 'e0', 'v'], ['fail', 'e0', 'x'], ['timeout', 1, 'a'], ['waitraise', 'e1']],
                  [None, ['e', 'e1']]),
        'native': ([['native', 'delay', 1], ['native', 'flag', 'f0'], ['native', 'coro', 1, 5], ['native', 'scoro', 1, 6], ['timeout', 1, 'a'], ['wait', 'e0'],
                    ['succeed', 'e0', 'v'], ['interrupt', 'OTHER', 'c']], [None, 2]),
    }
    out = []
    # watchdog idiom: callbacks of e0 / e1 interrupt a process (which may be waiting, about to start, or finished - also the one
    # that triggered the event and ended right afterwards)
    walpha = [['timeout', 1, 'a'], ['timeout', 0, 'z'], ['succeed', 'e0', 'v'], ['succeed', 'e1', 'w'], ['wait', 'e0'], ['return', 7]]
    for s0, s1 in itertools.product(scripts(walpha, 2), scripts(walpha, 2)):
        if not any(op[0] == 'succeed' for op in s0 + s1):
            continue
        for wd in ([['e0', 'p0', 'bark']], [['e0', 'p1', 'bark']], [['e0', 'p1', 'b1'], ['e1', 'p1', 'b2']], [['e0', 'p0', 'b1'], ['e0', 'p1', 'b2']]):
            if all(not any(op[0] == 'succeed' and op[1] == w[0] for op in s0 + s1) for w in wd):
                continue
            for mode in ('standalone', 'embedded') if len(s0) + len(s1) <= 3 else ('standalone',):
                base = {'family': 'watchdog', 'procs': [['p0', [list(op) for op in s0]], ['p1', [list(op) for op in s1]]], 'until': None,
                        'events': ['e0', 'e1'], 'mode': mode, 'watchdogs': wd}
                if mode == 'embedded':
                    base['procs'] = base['procs'] + [['pk', [['timeout', 3, 'k']]]]
                    base['natives'] = [['n0', [['await', 'e0']]], ['n1', [['sleep', 1], ['succeed', 'e1', 'nv']]]]
                out.append(base)
    # an environment entered late / with an initial time behind or ahead of the clock of the simulation it is entered in
    for e in (0, 1, 3, 0.5):
        for i in (0, 2, 5, -5, 2.5):
            for t in (1, 2, 3, 4, 6, 2.5, -2, 0):
                out.append({'family': 'late', 'mode': 'embedded', 'enter': e, 'initial': i, 'until': t, 'procs': []})
    for fam, (alpha, untils) in fams.items():
        ss = scripts(alpha, L)
        if fam == 'cond' and thorough:
            # depth 3 over the flat operations, depth 2 over all of them (the nested and repeated-member conditions included)
            ss = scripts(alpha, 2) + [sc for sc in scripts(alpha[:4] + alpha[5:10], 3) if len(sc) == 3]
        second = scripts(alpha, 2)
        for s0, s1 in itertools.product(ss, second):
            if fam == 'cond' and thorough and len(s0) == 3 and len(s1) == 2:
                continue        # (3 + 2 operations over conditions: the reference exploration gets too large)
            p0 = [[('p1' if x == 'OTHER' else x) for x in op] for op in s0]
            p1 = [[('p0' if x == 'OTHER' else x) for x in op] for op in s1]
            if fam == 'proc' and any(op[0] == 'waitproc' for op in p0) and any(op[0] == 'waitproc' for op in p1) and not thorough:
                continue
            for u in untils:
                if not thorough and len(s0) + len(s1) == 4 and u not in (None,):
                    continue
                base = {'family': fam, 'procs': [['p0', p0], ['p1', p1]], 'until': u, 'events': ['e0', 'e1'], 'mode': 'standalone'}
                if fam == 'chain':
                    base['chains'] = [['e0', 'e1']]
                if fam in ('events', 'proc') and len(s0) + len(s1) <= 3:
                    late = dict(base)
                    late['initial'] = 5
                    late['until'] = (u + 5) if isinstance(u, (int, float)) else u
                    out.append(late)
                    if isinstance(u, (int, float)) and u:
                        # an absolute end date without exact binary representation, reached from such a start time
                        frac = dict(base)
                        frac['initial'] = 0.2
                        frac['until'] = 0.9 if u == 2 else u + 0.7
                        out.append(frac)
                if fam in ('events', 'chain') and u is None and any(op[0] == 'fail' for op in p0 + p1):
                    sup = dict(base)
                    sup['defuse'] = ['e0', 'e1']
                    out.append(sup)
                out.append(base)
                if (fam in ('native', 'events') or (thorough and fam != 'chain')) and (u is None or u == 2):
                    emb = dict(base)
                    emb['mode'] = 'embedded'
                    # (a long timeout keeps the environment alive while the native activities act on its events)
                    emb['procs'] = base['procs'] + [['pk', [['timeout', 3, 'k']]]]
                    emb['natives'] = [['n0', [['await', 'e0']]], ['n1', [['sleep', 1], ['setflag', 'f0'], ['succeed', 'e1', 'nv']]]]
                    out.append(emb)
                    if fam == 'events':
                        # a native activity that gives up waiting for an event before it is triggered (or fails)
                        imp = dict(emb)
                        imp['natives'] = [['n0', [['awaitfor', 'e0', 1]]], ['n1', [['awaitfor', 'e1', 1]]]]
                        out.append(imp)
    return out


def nontrivial(program):
    if program.get('family') == 'late':
        return True
    txt = repr(program['procs'])
    return any(w in txt for w in ('wait', 'interrupt', 'allof', 'anyof', 'fail', 'raise', 'native'))


def check_late(program):
    """scripted family: an environment with initial time i is entered by a native activity at loop time e and asked to run until
    t. Entering moves the clock to T0 = max(e, i); a t before T0 is refused (ValueError, no process step runs), otherwise the
    call returns exactly at t and a ticking process has run at T0, T0+1, ... (a step at t itself may or may not happen)."""
    e, i, t = program['enter'], program['initial'], program['until']
    steps, seen = [], {}

    def ticker(env):
        while True:
            steps.append(env.now)
            yield env.timeout(1)

    async def main():
        await (time + e)
        env = simpy.Environment(i)
        env.process(ticker(env))
        try:
            await env.until(t)
            seen['out'] = 'stopped'
        except ValueError:
            seen['out'] = 'rejected'
        seen['now'], seen['envnow'] = time.now, env.now
        await (time + 2)
        seen['later'] = list(steps)
    from ..kernel import ExecTimer
    try:
        with ExecTimer():
            usim.run(main())
    except BaseException as err:      # noqa
        return ['late entry (enter %r, initial %r, until %r): run() raised %r' % (e, i, t, err)]
    T0 = max(e, i)
    msgs = []
    if t < T0:
        if seen.get('out') != 'rejected' or steps:
            msgs.append('until=%r lies before the clock %r of the entered environment: expected ValueError and no process step, got %r with steps %r at %r'
                        % (t, T0, seen.get('out'), steps, seen.get('now')))
    else:
        must = [T0 + k for k in range(0, 20) if T0 + k < t]
        if seen.get('out') != 'stopped' or seen.get('now') != t or seen.get('envnow') != t:
            msgs.append('until=%r (clock %r on entry): expected to return at %r, got %r at time %r (env.now %r)' % (t, T0, t, seen.get('out'), seen.get('now'), seen.get('envnow')))
        elif steps[:len(must)] != must or any(x > t for x in steps) or len(steps) > len(must) + 1:
            msgs.append('until=%r (clock %r on entry): the ticking process ran at %r, expected %r (and possibly %r)' % (t, T0, steps, must, t))
    if seen.get('later') is not None and seen['later'] != steps[:len(seen['later'])]:
        msgs.append('processes went on after until() returned')
    if 'later' in seen and len(steps) != len(seen['later']):
        msgs.append('processes went on after until() returned: %r' % (steps,))
    return msgs


def check(program):
    if program.get('family') == 'late':
        return check_late(program), 1, 1, False
    msgs = []
    needs_flag = 'f0' in repr(program['procs'])
    if program.get('mode') != 'embedded' and needs_flag:
        return [], 0, 0, True       # a native flag nobody can set: not a meaningful standalone program
    outcomes, runs, transitions = model_outcomes(program)
    if outcomes is None:
        # the reference exploration of this program exceeds 30000 model states: not judged (counted, see the evidence)
        return [], runs, transitions, 'cap'
    real, cbcount, holder = run_real(program)
    ok = False
    for out in outcomes:
        if out[0][0] == 'raised' and out[1] is None:
            if real[0] == out[0]:
                ok = True
        elif out == real:
            ok = True
    if not ok:
        shown = sorted(outcomes, key=repr)[:3]
        msgs.append('outcome %r is not among the %d admissible outcomes, e.g. %r' % (real, len(outcomes), shown))
    for key, n in cbcount.items():
        if n != 1:
            msgs.append('callback of %r ran %d times' % (key, n))
    for name, ev in list(holder.get('events', {}).items()) + list(holder.get('procs', {}).items()):
        if ev.processed and cbcount.get(name, 0) != 1:
            msgs.append('%r was processed but its callback ran %d times' % (name, cbcount.get(name, 0)))
    return msgs, runs, transitions, False


def explore_case(program, tier):
    msgs, nout, transitions, skipped = check(program)
    return {'execs': 0 if skipped else 1, 'nontrivial': 0 if skipped else int(nontrivial(program)),
            'outcomes': {program['family'] + '/' + program['mode']: 1},
            'viol': [{'faults': [], 'msgs': msgs}] if msgs else [],
            'counters': {'model_states': nout, 'model_transitions': transitions,
                         'programs_not_judged_model_cap_30000_states': int(skipped == 'cap')}}


def replay(case, faults):
    return check(case)[0]
