"""C20 - every awaitable operation yields to the other runnable activities at least once."""
from ..run import run_one
from ..oracles import kernel_health

PROPERTY = 'C20'
LEVEL = 'exploration'
RULE = ('the complete table of (operation, state in which it can complete without waiting): awaiting instant/+0, true flag / '
        'comparison / resource comparison / and / or / inverted flag, time>=past/now, time<future, time==now, a done task, its done '
        'condition, an ended scope; flag.set (changing / not changing / unset, directly and through the inverse flag); tracked set / +; queue put (with / without waiting '
        'receiver), buffered get, close (open / closed), iteration steps over buffered items; channel put (with / without consumer), '
        'close; borrow / claim / nested borrow with resources available and their release (normal, and while an exception / until-interrupt / cancellation leaves the block); increase / decrease / set; transfers of '
        'zero volume, on an infinite pipe, on an UnboundedPipe; interval(0) / delay(0); collect of nothing / of instant activities; '
        'first(count=0) / of an instant activity; leaving an empty scope, a scope whose children are done, whose child has just failed, '
        'whose late child was cancelled before its first turn, an until block - each next '
        'to 1 and 2 competing runnable activities, with the actor spawned first and last. Oracle: the operation must span at least '
        'two activations of the FIFO-monitored loop (or advance the clock) and every live competitor must get a turn in between; '
        'non-trivial = every row (each is a state in which the operation could complete immediately)')
ASSUMPTIONS = [
    'only normal completions are judged; an iteration that ends at once because the stream is closed and empty, and acquiring a '
    'free Lock, are deliberately not judged (not in the property\'s list)',
    'turn order in one time step is FIFO (checked by the loop monitor on every execution)',
]

R2 = {'r': ['Resources', {'a': 2}]}


def rows():
    """(name, objs, other activities, actor script, judged) ; judged = list of (pc, kind)"""
    T = []

    def row(name, script, judged, objs=None, others=None, start=0):
        T.append({'name': name, 'objs': objs or {}, 'others': others or [], 'script': script, 'judged': judged, 'start': start})

    def ops(name, setup, judged_ops, objs=None, others=None, start=0):
        script = setup + judged_ops
        row(name, script, [((len(setup) + i,), 'op') for i in range(len(judged_ops))], objs, others, start)

    F2 = {'A': 'Flag', 'B': 'Flag'}
    ops('instant', [], [['INSTANT'], ['D', 0]])
    ops('flag-true', [['SET', 'A', True]], [['WAIT', ['F', 'A']]], F2)
    ops('flag-inverse', [], [['WAIT', ['NF', 'A']]], F2)
    ops('and-true', [['SET', 'A', True], ['SET', 'B', True]], [['WAIT', ['AND', ['F', 'A'], ['F', 'B']]]], F2)
    ops('or-true', [['SET', 'A', True]], [['WAIT', ['OR', ['F', 'A'], ['F', 'B']]], ['WAIT', ['OR', ['F', 'B'], ['F', 'A']]]], F2)
    ops('nested-true', [['SET', 'A', True]], [['WAIT', ['OR', ['AND', ['F', 'A'], ['NF', 'B']], ['F', 'B']]]], F2)
    ops('tracked-cmp', [], [['WAIT', ['T', 'X', '>=', 0]], ['WAIT', ['TT', 'X', '>=', 'Y']]], {'X': ['Tracked', 1], 'Y': ['Tracked', 0]})
    ops('resource-cmp', [], [['WAIT', ['R', 'r', '>=', {'a': 1}]]], R2)
    ops('time', [['D', 1]], [['GE', 0], ['GE', 1], ['LT', 5], ['EQ', 1], ['WAIT', ['AND', ['GE', 0], ['LT', 3]]]])
    ops('flag-set', [], [['SET', 'A', True], ['SET', 'A', True], ['SET', 'A', False], ['SET', 'A', False]], F2)
    # (through the inverse of the flag: changing, not changing, from both states)
    ops('flag-set-inverse', [], [['NSET', 'A', True], ['NSET', 'A', False], ['NSET', 'A', False], ['NSET', 'A', True], ['NSET', 'A', True]], F2)
    ops('tracked-set', [], [['TSET', 'X', 3], ['TSET', 'X', 3], ['TADD', 'X', 1]], {'X': ['Tracked', 0]})
    row('task-done', [['SCOPE', 'a', [['DO', 't', [['RETURN', 5]]], ['INSTANT'], ['INSTANT'], ['AWAIT', 't'], ['AWAITDONE', 't'],
                                      ['WAIT', ['DONE', 't']]]]], [((0, 3), 'op'), ((0, 4), 'op'), ((0, 5), 'op')])
    row('task-done-error', [['SCOPE', 'a', [['DO', 't', [['D', 5]]], ['DO', 'u', [['ETERNITY']], {'volatile': True}], ['INSTANT'],
                                            ['CANCEL', 't', 'x'], ['INSTANT'], ['INSTANT'],
                                            ['TRY', [['AWAIT', 't']]], ['TRY', [['AWAIT', 't']]], ['AWAITDONE', 't']]],
                            ['TRY', [['AWAIT', 'u']]], ['TRY', [['AWAIT', 'u']]]],
        [((0, 6, 0), 'opx'), ((0, 7, 0), 'opx'), ((0, 8), 'op'), ((1, 0), 'opx'), ((2, 0), 'opx')])
    row('task-failed', [['TRY', [['SCOPE', 'a', [['DO', 't', [['RAISE', 'KeyError', 'f']]], ['ETERNITY']]]]],
                        ['TRY', [['AWAIT', 't']]], ['TRY', [['AWAIT', 't']]]],
        [((1, 0), 'opx'), ((2, 0), 'opx')])
    row('scope-ended', [['SCOPE', 'a', []], ['AWAITSCOPE', 'a']], [((1,), 'op')])
    Q = {'q': 'Queue'}
    ops('queue-put', [], [['PUT', 'q', 1], ['PUT', 'q', 2]], Q)
    ops('queue-put-waiter', [['INSTANT']], [['PUT', 'q', 1]], Q, [['c', [['GET', 'q']]]])
    ops('queue-get-buffered', [['PUT', 'q', 1], ['PUT', 'q', 2]], [['GET', 'q'], ['GET', 'q']], Q)
    ops('queue-close', [], [['CLOSE', 'q'], ['CLOSE', 'q']], Q)
    row('queue-iter-buffered', [['PUT', 'q', 1], ['PUT', 'q', 2], ['ITER', 'q', 2, []]], [((2,), 'iter')], Q)
    C = {'ch': 'Channel'}
    ops('channel-put', [], [['PUT', 'ch', 1]], C)
    ops('channel-put-consumer', [['INSTANT']], [['PUT', 'ch', 1], ['PUT', 'ch', 2]], C, [['c', [['ITER', 'ch', 2, []]]]])
    ops('channel-close', [], [['CLOSE', 'ch'], ['CLOSE', 'ch']], C)
    for sup, spec in (('res', ['Resources', {'a': 2}]), ('cap', ['Capacities', {'a': 2}])):
        row('borrow-' + sup, [['BORROW', 'r', {'a': 1}, []], ['BORROW', 'r', {'a': 2}, [['INSTANT']]]],
            [((0,), 'acquire'), ((0,), 'release'), ((1,), 'acquire'), ((1,), 'release')], {'r': spec})
        row('claim-' + sup, [['CLAIM', 'r', {'a': 1}, []]], [((0,), 'acquire'), ((0,), 'release')], {'r': spec})
        row('nested-borrow-' + sup, [['BORROW', 'r', {'a': 2}, [['BORROW', '@', {'a': 1}, []]]]],
            [((0, 0), 'acquire'), ((0, 0), 'release')], {'r': spec})
        # giving back while an exception, an until-interrupt or a cancellation is leaving the block (only a forceful close
        # - GeneratorExit - cannot yield)
        for how in ('BORROW', 'CLAIM'):
            row('%s-raise-%s' % (how.lower(), sup), [['TRY', [[how, 'r', {'a': 1}, [['RAISE', 'KeyError', 'x']]]]]],
                [((0, 0), 'release')], {'r': spec})
            row('%s-until-%s' % (how.lower(), sup), [['UNTIL', 'a', ['F', 'A'], [[how, 'r', {'a': 1}, [['ETERNITY']]]]]],
                [((0, 0), 'release')], {'r': spec, 'A': 'Flag'}, [['s', [['D', 1], ['SET', 'A', True]]]])
            row('%s-cancel-%s' % (how.lower(), sup), [[how, 'r', {'a': 1}, [['ETERNITY']]]],
                [((0,), 'release')], {'r': spec}, [['k', [['D', 1], ['CANCEL', 'actor', 'x']]]])
    ops('resources-change', [], [['INC', 'r', {'a': 1}], ['DEC', 'r', {'a': 1}], ['RSET', 'r', {'a': 2}], ['INC', 'r', {'a': 0}]], R2)
    ops('pipe-zero', [], [['XFER', 'p', 0], ['XFER', 'p', 0, 1]], {'p': ['Pipe', 2]})
    ops('pipe-infinite', [], [['XFER', 'p', 2], ['XFER', 'p', 0]], {'p': ['Pipe', 'inf']})
    ops('pipe-unbounded', [], [['XFER', 'p', 2], ['XFER', 'p', 0], ['XFER', 'p', 0, 1]], {'p': ['UnboundedPipe']})
    ops('interval0', [], [['INTERVAL', 0, 2, [[], []]], ['DELAYLOOP', 0, 2, [[], []]]])
    row('ticker-steps', [['INTERVAL', 0, 3, [[], [], []]], ['DELAYLOOP', 0, 3, [[], [], []]],
                         ['INTERVAL', 1, 3, [[['D', 1]], [['D', 1]], []]], ['INTERVAL', 2, 2, [[['D', 1], ['D', 1]], []]]],
        [((0,), 'ticks'), ((1,), 'ticks'), ((2,), 'ticks'), ((3,), 'ticks')])
    ops('collect', [], [['COLLECT', [], []], ['COLLECT', ['k1', 'k2'], [[['RETURN', 1]], [['RETURN', 2]]]]])
    ops('first', [], [['FIRST', ['k3'], [[['D', 1], ['RETURN', 1]]], 0, []], ['FIRST', ['k4', 'k5'], [[['RETURN', 1]], [['RETURN', 2]]], 1, []]])
    row('scope-exit-empty', [['SCOPE', 'a', []]], [((0,), 'scope-exit')])
    row('scope-exit-done-children', [['SCOPE', 'a', [['DO', 't', []], ['DO', 'u', [['INSTANT']]], ['D', 1]]]], [((0,), 'scope-exit')])
    # the block ends regularly right after a child has failed (the parent's own wake-up was queued ahead of the scope's signal)
    row('scope-exit-after-child-failure', [['TRY', [['SCOPE', 'a', [['DO', 't', [['D', 1], ['RAISE', 'KeyError', 'f']]], ['INSTANT'], ['D', 1]]]]]],
        [((0, 0), 'scope-exit')])
    # a child spawned while the scope is shutting down and cancelled before its first turn
    for i, (pre, body) in enumerate([([['INSTANT']], []), ([], []), ([['AWAITSCOPE', 'a']], [['INSTANT']]), ([['AWAITSCOPE', 'a']], [['D', 1]]),
                                     ([['INSTANT']], [['INSTANT']])]):
        row('scope-exit-late-cancelled-child-%d' % i,
            [['SCOPE', 'a', [['DO', 'sp', pre + [['DO', 'v', [['D', 1]], {'scope': 'a'}], ['CANCEL', 'v', 'x']]]] + body]],
            [((0,), 'scope-exit')])
    row('until-exit', [['UNTIL', 'a', ['ETERNITY'], [['INSTANT']]], ['UNTIL', 'b', ['DELAY', 5], []]],
        [((0,), 'scope-exit'), ((1,), 'scope-exit')])
    # leaving an until block whose notification has fired although the body never met a break point that could take the interrupt
    row('until-exit-fired', [['SET', 'A', True], ['UNTIL', 'a', ['F', 'A'], []], ['UNTIL', 'b', ['GE', 0], []],
                             ['UNTIL', 'c', ['OR', ['F', 'A'], ['F', 'B']], []], ['UNTIL', 'd', ['NF', 'B'], [['PROBE', 'now']]]],
        [((1,), 'scope-exit'), ((2,), 'scope-exit'), ((3,), 'scope-exit'), ((4,), 'scope-exit')], F2)
    row('until-exit-fired-late', [['UNTIL', 'a', ['F', 'A'], [['INSTANT']]]], [((0,), 'scope-exit')], F2,
        [['s', [['SET', 'A', True]]]])
    # an operation right after an until block that was interrupted inside a postponing operation in this very time step
    # (the wake-up of that interrupted postponement is still in the queue, revoked)
    OBJ = {'A': 'Flag', 'B': 'Flag', 'q': 'Queue', 'X': ['Tracked', 0]}
    for i, (pre, op) in enumerate([([], ['INSTANT']), ([], ['D', 0]), ([], ['GE', 0]), ([], ['PUT', 'q', 1]), ([['PUT', 'q', 1]], ['GET', 'q']),
                                   ([], ['TSET', 'X', 1]), ([], ['SET', 'B', True]), ([['SET', 'B', True]], ['WAIT', ['F', 'B']]),
                                   ([], ['SCOPE', 'z', []])]):
        for blk in ([['UNTIL', 'a', ['F', 'A'], [['SET', 'A', True]]]], [['UNTIL', 'a', ['T', 'X', '>=', 5], [['TSET', 'X', 5]]]],
                    [['UNTIL', 'a', ['F', 'A'], [['DO', 'k', [['SET', 'A', True]]], ['INSTANT'], ['INSTANT']]]]):
            setup = pre + [['TRY', blk]]
            row('after-interrupted-postponement-%d' % i, setup + [op],
                [((len(setup),), 'scope-exit' if op[0] == 'SCOPE' else 'op')], OBJ)
    # clock values so large that a positive period / duration is absorbed by the addition (now + d == now)
    BIG = 2.0 ** 60
    row('ticker-steps-big-clock', [['DELAYLOOP', 1, 3, [[], [], []]], ['INTERVAL', 1, 3, [[], [], []]], ['DELAYLOOP', 0, 2, [[], []]]],
        [((0,), 'ticks'), ((1,), 'ticks'), ((2,), 'ticks')], None, None, BIG)
    ops('pipe-big-clock', [], [['XFER', 'p', 1], ['XFER', 'p', 2, 1], ['XFER', 'p', 0]], {'p': ['Pipe', 2]}, None, BIG)
    ops('unbounded-big-clock', [], [['XFER', 'p', 2, 1], ['XFER', 'p', 2]], {'p': ['UnboundedPipe']}, None, BIG)
    ops('waits-big-clock', [], [['D', 1], ['INSTANT'], ['GE', 0]], None, None, BIG)
    return T


def program(row, nspin, actor_first):
    kids = []
    actor = ['DO', 'actor', row['script']]
    spinners = [['DO', 'spin%d' % (i + 1), [['SPINLOG', 40], ['EQ', 1], ['SPINLOG', 40]], {'volatile': True}] for i in range(nspin)]
    others = [['DO', n, s, {'volatile': True}] for n, s in row['others']]
    kids = ([actor] + others + spinners) if actor_first else (others + spinners + [actor])
    return {'objs': row['objs'], '_nops': 120, '_row': row['name'], '_judged': row['judged'], 'start': row.get('start', 0),
            'roots': [['root', [['SCOPE', 'm', kids]]]]}


def BOUNDS(tier):
    return {'rows': len(rows()), 'competitors': [1, 2], 'actor_position': ['first', 'last']}


def cases(tier):
    out = []
    for r in rows():
        for nspin in (1, 2):
            for first in (True, False):
                out.append(program(r, nspin, first))
    return out


def spans(ctx, judged):
    """[(description, begin idx, end idx)] of the judged operations that completed normally"""
    log = ctx.log
    out = []
    for pc, kind in judged:
        pc = tuple(pc)
        recs = [(i, r) for i, r in enumerate(log) if r[1] == 'actor' and r[2] == pc]
        if kind in ('op', 'opx'):
            # 'opx': the operation completes by raising the documented exception (awaiting a task that ended with an error)
            s = next((i for i, r in recs if r[0] == 'start'), None)
            e = next((i for i, r in recs if r[0] == ('end' if kind == 'op' else 'exc')), None)
            if s is not None and e is not None:
                out.append(('%s at %r' % (log[s][4], pc), s, e))
            elif s is not None:
                out.append(('%s at %r did not complete normally' % (log[s][4], pc), s, None))
        elif kind == 'acquire':
            s = next((i for i, r in recs if r[0] == 'res-acquiring'), None)
            e = next((i for i, r in recs if r[0] == 'res-held'), None)
            out.append(('acquiring at %r' % (pc,), s, e))
        elif kind == 'release':
            s = next((i for i, r in recs if r[0] == 'res-releasing'), None)
            e = next((i for i, r in recs if r[0] == 'res-gone'), None)
            out.append(('releasing at %r' % (pc,), s, e))
        elif kind == 'scope-exit':
            s = next((i for i, r in recs if r[0] == 'scope-body-end'), None)
            e = next((i for i, r in recs if r[0] == 'scope-left'), None)
            if any(r[0] == 'scope-body-exc' for i, r in recs):
                continue        # the body was abandoned at a suspension point: not a regular exit (only those are judged)
            out.append(('leaving the block at %r' % (pc,), s, e))
        elif kind == 'ticks':
            marks = [i for i, r in recs if r[0] in ('iter-begin', 'tick')]
            for a, b in zip(marks, marks[1:]):
                e = max(i for i in range(a, b) if log[i][1] == 'actor')      # end of the previous body
                out.append(('ticker step at %r' % (pc,), e, b))
        elif kind == 'iter':
            marks = [i for i, r in recs if r[0] in ('iter-subscribe', 'iter-item')]
            for a, b in zip(marks, marks[1:]):
                out.append(('iteration step at %r' % (pc,), a, b))
    return out


def judge(ctx, program):
    msgs = []
    log = ctx.log
    for what, s, e in spans(ctx, program['_judged']):
        if s is None or e is None:
            msgs.append('row %s: %s (no normal completion to judge)' % (program['_row'], what))
            continue
        if log[s][3] != log[e][3]:
            continue            # the clock advanced
        if ctx.log_act[s] == ctx.log_act[e]:
            msgs.append('row %s: %s completed within the activation that started it: nobody else could run' % (program['_row'], what))
            continue
        # an exit that is completed by the until-interrupt of its own block (queued by the notification before the exit began,
        # i.e. ahead of the competitors' wake-ups) is an interrupted exit: it yielded, and FIFO order decides who runs next
        if ctx.trace[ctx.log_act[e] - 1][3] == 'CancelScope':
            continue
        # every competitor that is still alive in this time step got a turn in between
        for sp in {r[1] for r in log if r[1].startswith('spin')}:
            between = any(r[1] == sp for r in log[s:e])
            alive = any(r[1] == sp and r[0] == 'turn' and r[3] == log[e][3] for r in log[e:])
            began = any(r[1] == sp and r[3] == log[s][3] for r in log[:s])     # it is queued: it already ran in this time step
            if alive and began and not between:
                msgs.append('row %s: %s completed without competitor %s getting a turn' % (program['_row'], what, sp))
    msgs += kernel_health(ctx)
    if ctx.outcome is not None:
        msgs.append('run() raised %r' % (ctx.outcome,))
    return msgs


def check_exec(program, faults=()):
    ctx = run_one(program, faults)
    return ctx, judge(ctx, program)


def explore_case(program, tier):
    ctx, msgs = check_exec(program)
    n = len(spans(ctx, program['_judged']))
    return {'execs': 1, 'nontrivial': 1, 'outcomes': {program['_row']: 1},
            'viol': [{'faults': [], 'msgs': msgs}] if msgs else [], 'counters': {'operations_judged': n}}


def replay(case, faults):
    return check_exec(case, faults)[1]
