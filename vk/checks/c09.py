"""C09 - Lock: mutual exclusion, re-entrancy, FIFO hand-off, always released."""
import itertools
from ..run import run_one
from ..oracles import kernel_health, containment
from .. import faults as F

PROPERTY = 'C09'
LEVEL = 'fault_enumeration'
RULE = ('every program of 2-3 contenders (arrival none/instant/+1, hold none/instant/+1, nesting depth 1-2, '
        'optionally re-requesting) on one Lock, fault-free and with one deviation: a cancel injected at every '
        'activation boundary of every contender, an until-interrupt and a forceful close swept over every position '
        'of every FIFO round (thorough: two cancels on 2 contenders). Oracle: a FIFO lock model driven by the '
        'request/enter/leave/gave-up records; non-trivial = some contender had to wait for the lock, or a fault hit '
        'a contender that was holding, waiting for, or designated to own the lock')
ASSUMPTIONS = [
    'one lock, at most 3 contenders, holds and arrivals from {no suspension, instant, +1}',
    'cancel injection at activation boundaries uses the public synchronous Task.cancel; boundaries between two '
    'library-internal activations are skipped (counted)',
    'until-interrupt / close timing is swept by attacker position (EQ t; j x instant; act), coverage measured not proven',
]


def contender(arrival, hold, depth, twice):
    s = []
    if arrival == 'i':
        s.append(['INSTANT'])
    elif arrival == 1:
        s.append(['D', 1])
    body = [] if hold is None else ([['INSTANT']] if hold == 'i' else [['D', hold]])
    inner = ['LOCK', 'l', body]
    blk = inner if depth == 1 else ['LOCK', 'l', [['PROBE', 'available', 'l'], inner, ['PROBE', 'available', 'l']]]
    s += [['PROBE', 'available', 'l'], blk, ['PROBE', 'available', 'l']]
    if twice:
        s += [['LOCK', 'l', body], ['PROBE', 'available', 'l']]
    return s


FULL = [contender(a, h, d, t) for a in (None, 'i', 1) for h in (None, 'i', 1) for d in (1, 2) for t in (False, True)]
MID = [contender(a, h, d, t) for a in (None, 'i', 1) for h in (None, 1) for d in (1, 2) for t in (False, True) if not (d == 2 and t)]
SMALL = [contender(a, h, 1, False) for a in (None, 'i', 1) for h in (None, 1)] + [contender(None, 1, 2, False), contender('i', 'i', 1, True)]


def BOUNDS(tier):
    return {'quick': {'contenders': '2 (36 variants each), 3 (8 variants each) and 4 (3 variants each)', 'deviations': 1},
            'thorough': {'contenders': '2 (36 variants) and 3 (18 variants)', 'deviations': '1; 2 cancels for 2 contenders'}}[tier]


def program(scripts):
    kids = [['DO', 'c%d' % (i + 1), s] for i, s in enumerate(scripts)]
    return {'objs': {'l': 'Lock'}, '_nops': 30,
            'roots': [['root', [['SCOPE', 's', kids], ['PROBE', 'available', 'l'], ['LOCK', 'l', []], ['PROBE', 'now']]]]}


def cases(tier):
    out = []
    for a, b in itertools.product(FULL, FULL):
        out.append(program([a, b]))
    tri = SMALL if tier == 'quick' else MID
    for a, b, c in itertools.product(tri, tri, tri):
        out.append(program([a, b, c]))
    # four contenders: a waiter that leaves the queue with two or more waiters behind it
    quad = [contender(None, 1, 1, False), contender('i', 1, 1, False), contender(None, None, 1, False)]
    quad_all = quad if tier == 'quick' else quad + [contender(1, 1, 1, False), contender(None, 1, 2, False)]
    for a in quad_all[:2]:
        for b, c, d in itertools.product(quad_all, quad_all, quad_all):
            out.append(program([a, b, c, d]))
    # the lock object was used by an earlier simulation on this thread; the simulation runs while its caller handles an exception
    base = list(out)
    for i, p in enumerate(base):
        if i % 3 == 0:
            out.append(dict(p, _prior=True))
        elif i % 3 == 1:
            out.append(dict(p, _in_handler=True))
    return out


def lock_model(ctx):
    """Drive the FIFO lock model by the log; returns (messages, stats)."""
    msgs = []
    owner, depth, waiters = None, 0, []
    pending = {}       # act -> stack of requests not yet gone: 'req' | 'in'
    waited = False
    last = None
    log = ctx.log
    for idx, (kind, act, pc, now, data) in enumerate(log):
        if kind == 'lock-request':
            pending.setdefault(act, []).append('req')
            if owner is None:
                owner = act
            elif owner == act:
                pass
            else:
                waiters.append(act)
                waited = True
        elif kind == 'lock-enter':
            if owner != act:
                msgs.append('%s entered the lock at %r while the model owner is %r (waiters %r)' % (act, now, owner, waiters))
                if act in waiters:
                    waiters.remove(act)
                owner = act if owner is None else owner
            depth_before = depth
            if owner == act:
                depth += 1
            pending[act][-1] = 'in'
            if depth_before > 0 and owner == act:
                # re-entry must not wait: request and enter adjacent
                prev = log[idx - 1]
                if not (prev[0] == 'lock-request' and prev[1] == act):
                    msgs.append('%s re-entered its own lock only after other records (%r)' % (act, prev[:4]))
        elif kind == 'lock-leave':
            if owner != act:
                msgs.append('%s left the lock at %r but the model owner is %r' % (act, now, owner))
            else:
                depth -= 1
                if depth == 0:
                    owner = waiters.pop(0) if waiters else None
        elif kind == 'lock-gone':
            state = pending[act].pop()
            if state == 'req':       # gave up without entering
                if act in waiters:
                    waiters.remove(act)
                elif owner == act and depth == 0:
                    owner = waiters.pop(0) if waiters else None     # designated owner passes on
                elif owner == act:
                    msgs.append('%s failed to re-enter its own lock' % act)
        elif kind == 'end' and data is not None and log[idx - 1][0] == 'start' and log[idx - 1][4] == 'PROBE' \
                and isinstance(data, bool):
            expect = owner is None or owner == act
            if data != expect:
                msgs.append('%s saw available=%r at %r but the model owner is %r' % (act, data, now, owner))
    if owner is not None or waiters:
        msgs.append('at the end the lock is owned by %r with waiters %r' % (owner, waiters))
    for act, st in pending.items():
        if st:
            msgs.append('%s is still inside or waiting for the lock at the end: %r' % (act, st))
    return msgs, waited


def check_exec(program, faults=()):
    ctx = run_one(program, faults)
    msgs, waited = lock_model(ctx)
    msgs += kernel_health(ctx)
    msgs += containment(ctx, program)
    if ctx.outcome is not None:
        msgs.append('run() raised %r' % (ctx.outcome,))
    recs = {(k, a): (t, i) for i, (k, a, pc, t, d) in enumerate(ctx.log) if a == 'root' and pc == (2,)}
    fin = [r for r in ctx.log if r[0] == 'finish' and r[1] == 'root']
    if not fin:
        msgs.append('the root never obtained the free lock after all contenders left (run ended at quiescence)')
    else:
        rq, en = recs.get(('lock-request', 'root')), recs.get(('lock-enter', 'root'))
        if not rq or not en or rq[0] != en[0] or en[1] != rq[1] + 1:
            msgs.append('the root had to wait for a lock that nobody holds or waits for: %r %r' % (rq, en))
    return ctx, msgs, waited


def fault_hit_lock(ctx, victim):
    """was the victim requesting / holding the lock when the fault landed?"""
    state = 0
    for kind, act, pc, now, data in ctx.log:
        if act == victim and kind == 'lock-request':
            state += 1
        elif act == victim and kind == 'lock-gone':
            state -= 1
        elif kind == 'inject' and act == victim:
            return state > 0
    return False


def explore_case(program, tier):
    rep = {'execs': 0, 'nontrivial': 0, 'outcomes': {}, 'viol': [], 'counters': {}}
    cnt = rep['counters']

    def one(prog, faults, label, victim=None):
        ctx, msgs, waited = check_exec(prog, faults)
        rep['execs'] += 1
        hit = waited
        if victim and faults:
            hit = fault_hit_lock(ctx, victim)
        elif victim:
            hit = waited
        rep['nontrivial'] += int(bool(hit))
        key = '%s/%s' % (label, 'contended' if waited else 'free')
        rep['outcomes'][key] = rep['outcomes'].get(key, 0) + 1
        if msgs:
            rep['viol'].append({'faults': {'program': prog, 'faults': faults} if prog is not program else faults,
                                'msgs': msgs})
        return ctx

    bounds = []
    ctx0 = run_one(program, (), observe=F.observer(bounds))
    one(program, [], 'plain')
    if rep['viol']:
        return rep      # the fault-free run already violates: report it, do not multiply it
    pts, skipped = F.cancel_points(ctx0, bounds)
    cnt['boundaries_skipped_internal'] = skipped
    for k, v in pts:
        c1 = one(program, [{'k': k, 'kind': 'cancel', 'victim': v, 'token': 'x'}], 'cancel', v)
    ncont = len(program['roots'][0][1][0][2])
    if tier == 'thorough' and ncont == 2:
        for k, v in pts:
            b2 = []
            f1 = {'k': k, 'kind': 'cancel', 'victim': v, 'token': 'x'}
            c1 = run_one(program, [f1], observe=F.observer(b2))
            p2, _ = F.cancel_points(c1, [b for b in b2 if b[0] >= k])
            for k2, v2 in p2:
                if (k2, v2) == (k, v):
                    continue
                one(program, [f1, {'k': k2, 'kind': 'cancel', 'victim': v2, 'token': 'y'}], 'cancel2', v2)
    # attacker sweeps
    victims = ['c%d' % (i + 1) for i in range(ncont)]
    positions = F.attack_positions(ctx0, 0)
    if len(victims) > 1:
        for t, j in positions:
            if j <= 1:
                one(F.abort_all_attack(program, t, j), [], 'closeall', None)
    for v in victims:
        for t, j in positions:
            for first in (True, False):
                one(F.until_attack(program, v, t, j, first), [], 'until', None)
            one(F.close_attack(program, v, t, j), [], 'close', None)
    return rep


def replay(case, faults):
    if isinstance(faults, dict):
        return check_exec(faults['program'], faults['faults'])[1]
    return check_exec(case, faults)[1]
