"""C13 - Pipe shares throughput proportionally; transfers end at the fluid-model time."""
import itertools
from fractions import Fraction
from ..run import run_one
from ..oracles import kernel_health, containment
from .. import faults as F
from .c04 import ST_op

PROPERTY = 'C13'
LEVEL = 'fault_enumeration'
RULE = ('every program of 1-3 activities, each [start delay 0/1/2] + 1-2 sequential transfers (volume 0/1/2/4, limit none/1/4) on a '
        'Pipe of throughput 1/2/3/inf or an UnboundedPipe (also with every magnitude scaled by 2**-34, and with transfers that are '
        'children - one volatile - of an activity\'s own scope); fault-free and with one deviation: cancel at every activation boundary of '
        'every transferring activity, until-interrupt / forceful close swept over every queue position, abort of the whole scope (all running transfers closed together) at every time. Oracle: exact processor-sharing '
        'fluid model in rational arithmetic, fed with the observed start and abort times; every completed transfer must end at the '
        'model time (relative tolerance 1e-9); non-trivial = at least two transfers overlapped in time or a transfer was aborted '
        'while another one was active')
ASSUMPTIONS = [
    'volumes {0,1,2,4}, limits {none,1,4}, throughputs {1,2,3,inf}, start offsets {0,1,2}; <= 3 activities x <= 2 transfers',
    'completion times are compared with tolerance 1e-9*(1+t) (the property says "up to floating point rounding")',
    'start and abort times of transfers are taken from the log; what is predicted is every completion time',
]
INF = float('inf')
TOL = 1e-9


def fluid(T, xfers):
    """xfers: list of dicts(start, vol, limit, abort|None). Returns list of end times (None for aborted ones)."""
    n = len(xfers)
    ends = [None] * n
    rem = [(None if x['vol'] == 'inf' else Fraction(x['vol'])) for x in xfers]       # None: endless traffic, never completes
    lim = [(None if x['limit'] is None else Fraction(x['limit'])) for x in xfers]
    started = [False] * n
    active = set()
    t = None
    finite_T = T != INF
    TT = Fraction(T) if finite_T else None

    def rates():
        ls = {}
        for i in active:
            l = lim[i] if lim[i] is not None else TT     # None means infinite when the pipe is unbounded
            ls[i] = l
        if any(l is None for l in ls.values()):
            # unbounded pipe: unlimited transfers are instantaneous (handled by the caller), the others run at their limit
            return {i: ls[i] for i in active}
        total = sum(ls.values())
        scale = Fraction(1)
        if finite_T and total > TT:
            scale = TT / total
        return {i: ls[i] * scale for i in active}

    times = sorted({Fraction(x['start']) for x in xfers})
    t = times[0] if times else Fraction(0)
    guard = 0
    while True:
        guard += 1
        if guard > 1000:
            raise RuntimeError('fluid model did not terminate')
        # process starts / aborts at time t
        for i, x in enumerate(xfers):
            if not started[i] and Fraction(x['start']) == t:
                started[i] = True
                if x['abort'] is not None and Fraction(x['abort']) == t and False:
                    continue
                if rem[i] == 0:
                    if x['abort'] is None:
                        ends[i] = t
                    continue
                active.add(i)
        for i in list(active):
            a = xfers[i]['abort']
            if a is not None and Fraction(a) <= t:
                active.discard(i)
        r = rates()
        # infinite-rate transfers complete at once
        inst = [i for i in active if r[i] is None]
        if inst:
            for i in inst:
                ends[i] = t
                active.discard(i)
            continue
        nxt = []
        for i in active:
            if rem[i] is not None:
                nxt.append(t + rem[i] / r[i])
            if xfers[i]['abort'] is not None:
                nxt.append(Fraction(xfers[i]['abort']))
        for i, x in enumerate(xfers):
            if not started[i]:
                nxt.append(Fraction(x['start']))
        if not nxt:
            break
        tn = min(nxt)
        for i in list(active):
            if rem[i] is None:
                continue
            rem[i] -= r[i] * (tn - t)
            if rem[i] <= 0 and not (xfers[i]['abort'] is not None and Fraction(xfers[i]['abort']) < tn):
                if xfers[i]['abort'] is None or Fraction(xfers[i]['abort']) >= tn:
                    ends[i] = tn
                active.discard(i)
        t = tn
    return ends


def xfer_script(start, xfers):
    s = [['D', start]] if start else []
    for vol, limit in xfers:
        s += [['XFER', 'p', vol, limit]]
    return s + [['PROBE', 'now']]


TINY = 2.0 ** -34          # about 5.8e-11: the fluid model is scale free, volumes and rates may be of any magnitude
PIPES = {'p1': ['Pipe', 1], 'p2': ['Pipe', 2], 'p3': ['Pipe', 3], 'pinf': ['Pipe', 'inf'], 'unb': ['UnboundedPipe'],
         'p1t': ['Pipe', TINY], 'p2t': ['Pipe', 2 * TINY]}


def program(pipe, scripts, other=False, tiny=False):
    kids = [['DO', 'x%d' % (i + 1), s] for i, s in enumerate(scripts)]
    if other:
        # an unrelated pipe that is busy at the same time must not influence this one
        kids.append(['DO', 'y1', [['XFER', 'q', 8, None], ['PROBE', 'now']]])
        kids.append(['DO', 'y2', [['D', 1], ['XFER', 'q', 4, 2], ['PROBE', 'now']]])
    return {'objs': {'p': PIPES[pipe], 'q': ['Pipe', 2]}, '_nops': 40, '_pipe': pipe,
            'roots': [['root', [['SCOPE', 's', kids], ['XFER', 'p', 2 * (TINY if tiny else 1), None], ['PROBE', 'now']]]]}


def BOUNDS(tier):
    return {'quick': {'activities': '1-2 (33 scripts), 3 (6 scripts)', 'deviations': 1},
            'thorough': {'activities': '1-2 (60 scripts), 3 (10 scripts)', 'deviations': 1}}[tier]


def cases(tier):
    thorough = tier == 'thorough'
    vols = (0, 1, 2, 4)
    lims = (None, 1, 4)
    singles = [(v, l) for v in vols for l in lims]
    scripts = []
    for st in (0, 1, 2):
        for x in (singles if thorough else singles[::2] + [(4, None), (2, 1)]):
            scripts.append(xfer_script(st, [x]))
    for st in (0, 1):
        for x1, x2 in itertools.product([(2, 4), (4, None), (1, 1), (0, None)], [(2, None), (2, 1), (4, 4)]):
            scripts.append(xfer_script(st, [x1, x2]))
    tri = [xfer_script(0, [(4, None)]), xfer_script(1, [(2, 1)]), xfer_script(0, [(4, 4)]), xfer_script(1, [(1, None)]),
           xfer_script(2, [(2, 4)]), xfer_script(0, [(2, 4), (2, None)])] + (
           [xfer_script(0, [(0, 1)]), xfer_script(2, [(4, 1)]), xfer_script(1, [(4, None), (1, 1)]), xfer_script(0, [(1, 4)])] if thorough else [])
    out = []
    pipes = [p_ for p_ in PIPES if not p_.endswith('t')]
    for pipe in pipes:
        small = pipe in ('pinf', 'unb')
        for s in scripts:
            out.append(program(pipe, [s]))
        ss = scripts if not small else scripts[::4]
        for a, b in itertools.product(ss, ss if thorough else ss[::2]):
            out.append(program(pipe, [a, b]))
        if not small:
            for a, b, c in itertools.product(tri, tri, tri):
                out.append(program(pipe, [a, b, c]))
        for a, b in itertools.product(ss[::3], ss[::5]):
            out.append(program(pipe, [a, b], other=True))
    # the same programs with all volumes, limits and the throughput scaled by 2**-34: all times stay the same
    def scaled(script):
        return [([op[0], op[1], op[2] * TINY, (op[3] * TINY if op[3] is not None else None)] if op[0] == 'XFER' else op) for op in script]
    for pipe in ('p1t', 'p2t'):
        for a in scripts:
            out.append(program(pipe, [scaled(a)], tiny=True))
        for a, b in itertools.product(scripts[::2], scripts[::3]):
            out.append(program(pipe, [scaled(a), scaled(b)], tiny=True))
    # a transfer with a practically unlimited own limit joins and leaves while small-limit transfers are active
    for pipe in ('p2', 'p3'):
        for huge in (1e18, 2.0 ** 60):
            trio = [xfer_script(0, [(8, 1)]), xfer_script(0, [(2, huge)]), xfer_script(1, [(4, 4)])]
            for order in itertools.permutations(trio):
                out.append(program(pipe, list(order)))
            out.append(program(pipe, [xfer_script(0, [(6, 1)]), xfer_script(1, [(2, huge), (2, huge)])]))
    # ALL limits far above the throughput (the shares are scaled by 1e-10 ... 1e-12, and change by a factor of two or three when a
    # transfer joins or leaves): the scaling is relative, no absolute magnitude of it is "small enough not to matter"
    for pipe in ('p1', 'p2'):
        for la, lb, lc in ((1e10, 3e10, 1e10), (1e12, 1e12, 2e12), (2e10, 1e10, 4e10)):
            for sb in (0, 1):
                out.append(program(pipe, [xfer_script(0, [(4, la)]), xfer_script(sb, [(2, lb)])]))
                out.append(program(pipe, [xfer_script(0, [(4, la)]), xfer_script(sb, [(2, lb)]), xfer_script(1, [(1, lc), (1, lc)])]))
                out.append(program(pipe, [xfer_script(1, [(2, la), (1, lb)]), xfer_script(0, [(4, lc)])]))
    # endless background traffic (volume inf) that holds its share until it is interrupted, next to ordinary transfers
    for pipe in ('p1', 'p2', 'p3'):
        for lim in (None, 1, 4):
            for stop in (1, 3, 6):
                bg = [['UNTIL', 'bgu', ['DELAY', stop], [['XFER', 'p', 'inf', lim]]], ['PROBE', 'now']]
                for st in (0, 1):
                    for other in ([(2, None)], [(4, 4)], [(1, 1), (2, None)]):
                        out.append(program(pipe, [bg, xfer_script(st, other)]))
                        out.append(program(pipe, [xfer_script(st, other), [['D', 1]] + bg]))
                out.append(program(pipe, [bg, xfer_script(0, [(2, 1)]), xfer_script(1, [(4, None)])]))
    # transfers that are the children (one of them volatile) of an activity's own scope: the owner is cancelled, interrupted
    # or closed at every boundary, also while it waits for its children at the end of its block
    for pipe in ('p1', 'p2'):
        for g1 in ((4, None), (2, 1)):
            for g2 in ((8, None), (4, 4)):
                for tail in ([], [['D', 1]]):
                    for other in (xfer_script(0, [(4, None)]), xfer_script(1, [(2, 4)])):
                        inner = [['DO', 'g1', xfer_script(0, [g1])], ['DO', 'g2', xfer_script(0, [g2]), {'volatile': True}]] + tail
                        out.append(program(pipe, [[['SCOPE', 'in', inner], ['PROBE', 'now']], other]))
    return out


def pipe_model(ctx, program):
    msgs = []
    log = ctx.log
    spec = PIPES[program['_pipe']]
    T = INF if spec[0] == 'UnboundedPipe' or spec[1] == 'inf' else spec[1]
    ops = {}
    order = []
    for idx, (kind, act, pc, now, data) in enumerate(log):
        if kind == 'start' and data == 'XFER':
            ops[(act, pc)] = {'start': now, 'act': act, 'pc': pc}
            order.append((act, pc))
        elif kind in ('end', 'exc') and (act, pc) in ops and kind not in ops[(act, pc)]:
            ops[(act, pc)][kind] = now
    xs, other = [], []
    for key in order:
        o = ops[key]
        op = ST_op(program, *key)
        limit = op[3] if len(op) > 3 else None
        rec = {'start': o['start'], 'vol': op[2], 'limit': limit, 'abort': o.get('exc'), 'key': key, 'end': o.get('end')}
        (xs if op[1] == 'p' else other).append(rec)
    if spec[0] == 'UnboundedPipe':
        ends = [(x['start'] + (Fraction(x['vol']) / x['limit'] if x['limit'] else 0)) if x['abort'] is None else None for x in xs]
    else:
        ends = fluid(T, xs)
    if other:
        # the second pipe (throughput 2) is judged by its own fluid model
        ends = list(ends) + fluid(2, other)
        xs = xs + other
    overlap = False
    for x, e in zip(xs, ends):
        if x['abort'] is not None:
            continue
        if x['end'] is None:
            msgs.append('%s transfer %r never completed (model: %s)' % (x['key'][0], x['key'][1], e))
            continue
        if x['vol'] == 'inf':
            msgs.append('%s: an endless transfer (volume inf) completed at %r' % (x['key'][0], x['end']))
            continue
        if e is None or abs(float(e) - x['end']) > TOL * (1 + abs(float(e))):
            msgs.append('%s: transfer of %r (limit %r) started at %r completed at %r, the fluid model says %s' % (
                x['key'][0], x['vol'], x['limit'], x['start'], x['end'], float(e) if e is not None else None))
    spans = [(x['start'], x['end'] if x['end'] is not None else (x['abort'] if x['abort'] is not None else INF)) for x in xs]
    for (a1, b1), (a2, b2) in itertools.combinations(spans, 2):
        if a1 < b2 and a2 < b1:
            overlap = True
    return msgs, overlap


def check_exec(program, faults=()):
    ctx = run_one(program, faults)
    try:
        msgs, overlap = pipe_model(ctx, program)
    except RuntimeError as e:
        msgs, overlap = ['oracle: %s' % e], False
    msgs += kernel_health(ctx)
    msgs += containment(ctx, program)
    if ctx.outcome is not None:
        msgs.append('run() raised %r' % (ctx.outcome,))
    if not any(r[0] == 'finish' and r[1] == 'root' for r in ctx.log):
        msgs.append('the root never finished')
    return ctx, msgs, overlap


def explore_case(program, tier):
    rep = {'execs': 0, 'nontrivial': 0, 'outcomes': {}, 'viol': [], 'counters': {}}

    def one(prog, faults, label):
        ctx, msgs, overlap = check_exec(prog, faults)
        rep['execs'] += 1
        rep['nontrivial'] += int(bool(overlap))
        key = '%s/%s' % (label, 'overlap' if overlap else 'disjoint')
        rep['outcomes'][key] = rep['outcomes'].get(key, 0) + 1
        if msgs:
            rep['viol'].append({'faults': {'program': prog, 'faults': faults} if prog is not program else faults, 'msgs': msgs})

    bounds = []
    ctx0 = run_one(program, (), observe=F.observer(bounds))
    one(program, [], 'plain')
    if rep['viol']:
        return rep
    victims = [op[1] for op in program['roots'][0][1][0][2] if op[0] == 'DO']
    pts, skipped = F.cancel_points(ctx0, bounds, victims=victims)
    rep['counters']['boundaries_skipped_internal'] = skipped
    for k, v in pts:
        one(program, [{'k': k, 'kind': 'cancel', 'victim': v, 'token': 'x'}], 'cancel')
    for t, j in F.attack_positions(ctx0, 0):
        if j > 2:
            continue
        for v in victims:
            one(F.until_attack(program, v, t, j, True), [], 'until')
            one(F.close_attack(program, v, t, j), [], 'close')
    # the whole scope is aborted: every transfer still running is closed in one go
    if len(victims) > 1:
        for t, j in F.attack_positions(ctx0, 0):
            if j <= 1:
                one(F.abort_all_attack(program, t, j), [], 'closeall')
        for t in (0.5, 1.5):
            one(F.abort_all_attack(program, t, 0), [], 'closeall-frac')
    # interruption at times between the integer grid points
    for v in victims:
        for t in (0.5, 1.5, 2.25):
            one(F.until_attack(program, v, t, 0, True), [], 'until-frac')
            one(F.close_attack(program, v, t, 0), [], 'close-frac')
    return rep


def replay(case, faults):
    if isinstance(faults, dict):
        return check_exec(faults['program'], faults['faults'])[1]
    return check_exec(case, faults)[1]
