"""C08 - awaiting a condition returns only when it is true, and is never missed."""
import itertools
import usim
from usim import Flag, Tracked, Scope, time, instant
from ..run import run_one
from ..kernel import CURRENT, Ctx
from ..oracles import kernel_health

PROPERTY = 'C08'
LEVEL = 'exploration'
RULE = ('(i) algebra: every expression tree of depth <= 2 over 10 atoms (flags, tracked-vs-constant and tracked-vs-tracked '
        'comparisons, task.done, time >=/</==) x every valuation of the atoms x 3 clock values: bool(e), ~e, ~~e and De Morgan '
        'agree with an independent evaluator, for conditions built afresh and for conditions built at time 0 and kept (including '
        'time == now built at that very time); (ii)/(iii) dynamics: every tree x every change history of <= 2 (quick) / 3 (thorough) '
        'steps by one or two helper activities at times {0,1,2} (including changes reverted within one time step by another '
        'activity) x 1-2 waiters: a wait returns only while its expression is true, never within the activation that started it, and no waiter is left waiting at the end of '
        'a time step in which its expression holds; non-trivial = the waiter had to wait and some atom changed')
ASSUMPTIONS = [
    'atoms: flags A,B; X>=1, X==0, X>=Y (two tracked values); task.done; time>=1, time<2, time==1 (not invertible); resources level r >= {a: 1}',
    'trees of depth <= 2 in both nesting shapes op(sub, atom) and op(atom, sub)',
    'the independent evaluator (ev) is 15 lines of plain boolean logic',
]

ATOMS = [['F', 'A'], ['F', 'B'], ['T', 'X', '>=', 1], ['T', 'X', '==', 0], ['TT', 'X', '>=', 'Y'], ['DONE', 't'],
         ['GE', 1], ['LT', 2], ['EQ', 1], ['R', 'r', '>=', {'a': 1}]]
INVERTIBLE = [a for a in ATOMS if a[0] != 'EQ']


def ev(e, v):
    k = e[0]
    if k == 'F':
        return bool(v[e[1]])
    if k == 'T':
        from ..dsl import CMP, val
        return bool(CMP[e[2]](v[e[1]], val(e[3])))
    if k == 'TT':
        return v[e[1]] >= v[e[3]]
    if k == 'R':
        import operator as _op
        f = {'>=': _op.ge, '>': _op.gt, '<=': _op.le, '<': _op.lt}.get(e[2])
        if f is not None:
            return all(f(v[e[1]][n], a) for n, a in e[3].items())      # elementwise, all names
        eq = all(v[e[1]][n] == a for n, a in e[3].items())
        return eq if e[2] == '==' else not eq
    if k == 'DONE':
        return bool(v['done:' + e[1]])
    if k == 'GE':
        return v['now'] >= v['start'] + e[1]
    if k == 'LT':
        return v['now'] < v['start'] + e[1]
    if k == 'EQ':
        return v['now'] == v['start'] + e[1]
    if k == 'NOT':
        return not ev(e[1], v)
    if k == 'AND':
        return all(ev(x, v) for x in e[1:])
    if k == 'OR':
        return any(ev(x, v) for x in e[1:])
    raise ValueError(e)


def invertible(e):
    if e[0] == 'EQ':
        return False
    if e[0] in ('NOT', 'AND', 'OR'):
        return all(invertible(x) for x in e[1:])
    return True


def trees(depth2):
    d0 = [a for a in ATOMS]
    d1 = [['NOT', a] for a in INVERTIBLE]
    for op in ('AND', 'OR'):
        for a, b in itertools.combinations_with_replacement(range(len(ATOMS)), 2):
            d1.append([op, ATOMS[a], ATOMS[b]])
    out = d0 + d1
    if depth2:
        for op in ('AND', 'OR'):
            for sub in d1:
                for a in ATOMS:
                    out.append([op, sub, a])
                    out.append([op, a, sub])
        for sub in d1:
            if invertible(sub):
                out.append(['NOT', sub])
    return out


# a moment that is built exactly at its date (and kept, or combined with other atoms, beyond that time step)
NOW_TREES = [['EQ', 0]] + [t for a in ATOMS for op in ('AND', 'OR') for t in ([op, ['EQ', 0], a], [op, a, ['EQ', 0]])]


# ---- (i) algebra, evaluated inside a real simulation ----------------------------------------------
RES_ATOMS = [['R', 'r', op, {'a': 1}] for op in ('>', '>=', '<', '<=', '==', '!=')]


def algebra_case(case):
    """one valuation of the atoms; all trees are compared with the evaluator at 3 clock values"""
    A, B, X, Y, done = case['val'][:5]
    R = case['val'][5] if len(case['val']) > 5 else 0
    msgs = []
    count = [0]
    from ..dsl import Interp

    async def main():
        ctx = CURRENT[-1]
        interp = Interp(ctx, {'start': 0, 'objs': {'A': 'Flag', 'B': 'Flag', 'X': ['Tracked', X], 'Y': ['Tracked', Y],
                                                  'r': ['Resources', {'a': R}]}})
        async with Scope() as scope:
            async def payload():
                await (time + 5)
            task = scope.do(payload())
            ctx.tasks['t'] = task
            await ctx.objs['A'].set(A)
            await ctx.objs['B'].set(B)
            if done:
                task.cancel()
                await instant
            kept = None
            for now in (0, 1, 2):
                if time.now < now:
                    await (time == now)
                v = {'A': A, 'B': B, 'X': X, 'Y': Y, 'done:t': done, 'now': time.now, 'start': 0, 'r': {'a': R}}
                # condition objects that were built at time 0 and kept follow the current values just as fresh ones do
                if kept is None:
                    kept = [(tree, interp.cond(tree)) for tree in case['trees']]
                else:
                    for tree, c in kept:
                        count[0] += 1
                        if bool(c) != ev(tree, v):
                            msgs.append('bool() of the condition %r built at time 0 is %r at time %r, expected %r with %r' % (
                                tree, bool(c), time.now, ev(tree, v), v))
                            if len(msgs) > 5:
                                return
                for tree in case['trees']:
                    want = ev(tree, v)
                    c = interp.cond(tree)
                    count[0] += 1
                    if bool(c) != want:
                        msgs.append('bool(%r) is %r, expected %r with %r' % (tree, bool(c), want, v))
                    if invertible(tree):
                        if bool(~c) != (not want):
                            msgs.append('bool(~%r) is %r, expected %r with %r' % (tree, bool(~c), not want, v))
                        if bool(~~c) != want:
                            msgs.append('bool(~~%r) is %r, expected %r' % (tree, bool(~~c), want))
                        if tree[0] in ('AND', 'OR') and all(invertible(x) for x in tree[1:]):
                            parts = [interp.cond(x) for x in tree[1:]]
                            dm = ~parts[0]
                            for p_ in parts[1:]:
                                dm = (dm | ~p_) if tree[0] == 'AND' else (dm & ~p_)
                            if bool(dm) != (not want):
                                msgs.append('De Morgan fails for %r with %r' % (tree, v))
                    if len(msgs) > 5:
                        return
            task.cancel()
    ctx = Ctx()
    CURRENT.append(ctx)
    try:
        usim.run(main())
    except BaseException as e:
        msgs.append('algebra run raised %r' % (e,))
    finally:
        CURRENT.pop()
    return msgs, count[0]


# ---- (ii)/(iii) dynamics ---------------------------------------------------------------------------
ACTIONS = {
    'A+': [['SET', 'A', True]], 'A-': [['SET', 'A', False]], 'B+': [['SET', 'B', True]], 'B-': [['SET', 'B', False]],
    'X+': [['TADD', 'X', 1]], 'X-': [['TADD', 'X', -1]], 'Y+': [['TADD', 'Y', 1]], 'Y-': [['TADD', 'Y', -1]],
    'T!': [['CANCEL', 't', 'c']],
    'R+': [['INC', 'r', {'a': 1}]], 'R-': [['TRY', [['DEC', 'r', {'a': 1}]]]],
    # the flag raised / lowered through its inverse
    'nA+': [['NSET', 'A', False]], 'nA-': [['NSET', 'A', True]],
    # a tracked value that holds objects with a .value attribute of their own
    'XB': [['TSET', 'X', {'$': 'enum', 'n': 'BUSY'}]], 'XI': [['TSET', 'X', {'$': 'enum', 'n': 'IDLE'}]],
    'Xb': [['TSET', 'X', {'$': 'box', 'l': 'b', 'v': 0}]], 'Xa': [['TSET', 'X', {'$': 'box', 'l': 'a', 'v': 0}]],
}
REVERT = {'A+': 'A-', 'B+': 'B-', 'X+': 'X-', 'Y-': 'Y+', 'A-': 'A+', 'X-': 'X+', 'R+': 'R-'}


def helper(steps):
    s, t = [], 0
    for when, action in steps:
        if when > t:
            s.append(['EQ', when])
            t = when
        s += ACTIONS[action]
    return s


def dyn_program(tree, hist, second, init, nwait, task_last=False, start=0):
    prog = _dyn_program(tree, hist, second, init, nwait, task_last)
    if start:
        prog['start'] = start
    return prog


def _dyn_program(tree, hist, second, init, nwait, task_last=False):
    objs = {'A': 'Flag', 'B': 'Flag', 'X': ['Tracked', init[0]], 'Y': ['Tracked', init[1]], 'r': ['Resources', {'a': 0}]}
    kids = [['DO', 't', [['D', 5]]]]
    if task_last:
        # waiters subscribe and the helper acts before the watched task had its first turn
        order = [['DO', 'w1', [['WAIT', tree], ['PROBE', 'now']], {'volatile': True}]]
        hs = [['DO', 'h1', helper(hist)]]
        return {'objs': objs, '_nops': 30, '_tree': tree,
                'roots': [['root', [['SCOPE', 's', order + hs + kids + [['D', 3]]], ['PROBE', 'now']]]]}
    order = [['DO', 'w1', [['WAIT', tree], ['PROBE', 'now']], {'volatile': True}]]
    if nwait == 2:
        order.append(['DO', 'w2', [['INSTANT'], ['WAIT', tree], ['PROBE', 'now']], {'volatile': True}])
    hs = [['DO', 'h1', helper(hist)]]
    if second:
        # an independent activity that reverts the change in the same time step, queued ahead of the woken waiter
        hs.append(['DO', 'h2', helper(second)])
    body = kids + order + hs + [['D', 3]]
    return {'objs': objs, '_nops': 30, '_tree': tree, 'roots': [['root', [['SCOPE', 's', body], ['PROBE', 'now']]]]}


def route_programs():
    """a resource level that changes because a borrower LEAVES its block - by every route (normal exit, exception, until-interrupt,
    cancellation at every boundary, forceful close as a volatile child / by an aborting scope) - while waiters wait for it"""
    B = lambda body: ['BORROW', 'r', {'a': 1}, body]
    routes = {
        'normal': [['DO', 'h1', [B([['D', 1]])]]],
        'raise': [['DO', 'h1', [['TRY', [B([['D', 1], ['RAISE', 'KeyError', 'x']])]]]]],
        'until': [['DO', 'h1', [['UNTIL', 'u', ['DELAY', 1], [B([['ETERNITY']])]]]]],
        'cancel': [['DO', 'h1', [B([['ETERNITY']])]], ['DO', 'c', [['D', 1], ['CANCEL', 'h1']]]],
        'close-volatile': [['DO', 'own', [['SCOPE', 'in', [['DO', 'h1', [B([['ETERNITY']])], {'volatile': True}], ['D', 1]]]]]],
        'close-abort': [['DO', 'own', [['TRY', [['SCOPE', 'in', [['DO', 'h1', [B([['ETERNITY']])]], ['D', 1], ['RAISE', 'KeyError', 'y']]]]]]]],
        'nested': [['DO', 'h1', [['UNTIL', 'u', ['DELAY', 1], [B([['BORROW', '@', {'a': 1}, [['ETERNITY']]]])]]]]],
    }
    trees_ = [['R', 'r', '>=', {'a': 1}], ['R', 'r', '==', {'a': 1}], ['NOT', ['R', 'r', '<', {'a': 1}]], ['R', 'r', '>', {'a': 0}],
              ['AND', ['R', 'r', '>=', {'a': 1}], ['GE', 0]], ['OR', ['R', 'r', '>=', {'a': 1}], ['F', 'A']]]
    out = []
    for rname, holder in routes.items():
        for tree in trees_:
            for nwait in (1, 2):
                ws = [['DO', 'w%d' % (i + 1), [['WAIT', tree], ['PROBE', 'now']], {'volatile': True}] for i in range(nwait)]
                body = [['DO', 't', [['D', 5]]]] + holder + ws + [['D', 3]]
                out.append({'objs': {'A': 'Flag', 'B': 'Flag', 'X': ['Tracked', 0], 'Y': ['Tracked', 0], 'r': ['Resources', {'a': 1}]},
                            '_nops': 40, '_tree': tree, '_route': rname, 'roots': [['root', [['SCOPE', 's', body], ['PROBE', 'now']]]]})
    return out


def histories(maxlen):
    acts = ['A+', 'B+', 'X+', 'Y-', 'T!', 'A-', 'X-', 'R+']
    out = [[]]
    single = [(t, a) for t in (0, 1, 2) for a in acts]
    out += [[s] for s in single]
    if maxlen >= 2:
        for s1, s2 in itertools.product(single, single):
            if s2[0] >= s1[0] and s1 != s2:
                out.append([s1, s2])
    if maxlen >= 3:
        for s1, s2, s3 in itertools.product(single[:15], single[:15], single[:15]):
            if s1[0] <= s2[0] <= s3[0] and len({s1, s2, s3}) == 3:
                out.append([s1, s2, s3])
    return out


def atoms_of(tree):
    if tree[0] in ('NOT', 'AND', 'OR'):
        r = set()
        for x in tree[1:]:
            r |= atoms_of(x)
        return r
    return {tree[1] if tree[0] in ('F', 'T', 'TT', 'DONE', 'R') else 'time'} | ({tree[3]} if tree[0] == 'TT' else set())


def subst(tree):
    """the same tree watching task t2 instead of t"""
    if tree[0] == 'DONE':
        return ['DONE', 't2']
    if tree[0] in ('NOT', 'AND', 'OR'):
        return [tree[0]] + [subst(x) for x in tree[1:]]
    return tree


def touches(action):
    return {'A+': 'A', 'A-': 'A', 'B+': 'B', 'B-': 'B', 'X+': 'X', 'X-': 'X', 'Y+': 'Y', 'Y-': 'Y', 'T!': 't', 'R+': 'r', 'R-': 'r',
            'nA+': 'A', 'nA-': 'A', 'XB': 'X', 'XI': 'X', 'Xa': 'X', 'Xb': 'X'}[action]


def BOUNDS(tier):
    return {'quick': {'tree_depth': 2, 'history_len': 2, 'waiters': '1-2'},
            'thorough': {'tree_depth': 2, 'history_len': 3, 'waiters': '1-2'}}[tier]


def cases(tier):
    out = []
    all_trees = trees(True)
    # (i) algebra: one case per valuation, trees split in chunks
    vals = list(itertools.product((False, True), (False, True), (0, 1), (0, 1), (False, True), (0, 2)))
    chunk = 400
    for v in vals:
        for i in range(0, len(all_trees), chunk):
            out.append({'kind': 'algebra', 'val': list(v), 'trees': all_trees[i:i + chunk]})
    # every comparison operator on resource levels, at levels below / equal to / above the bound
    rtrees = RES_ATOMS + [['NOT', a] for a in RES_ATOMS] + [['AND', a, ['F', 'A']] for a in RES_ATOMS] + [['OR', a, b] for a in RES_ATOMS[:3] for b in RES_ATOMS[3:]]
    for level in (0, 1, 2):
        out.append({'kind': 'algebra', 'val': [True, False, 0, 0, False, level], 'trees': rtrees})
    for v in vals[::2]:
        out.append({'kind': 'algebra', 'val': list(v), 'trees': NOW_TREES})
    # (ii)/(iii) dynamics
    hist = histories(2 if tier == 'quick' else 3)
    dyn_trees = all_trees if tier == 'thorough' else trees(False) + [t for i, t in enumerate(trees(True)[len(trees(False)):]) if i % 4 == 0]
    for tree in dyn_trees:
        at = atoms_of(tree)
        for h in hist:
            if h and not all(touches(a) in at for _, a in h):
                continue      # histories that cannot influence this expression add nothing
            if tier == 'quick' and len(h) == 2 and len(tree) > 2 and isinstance(tree[1], list) and tree[1][0] in ('AND', 'OR', 'NOT') and h[0][0] != h[1][0]:
                continue
            for init in ((0, 0), (1, 0)) if ('X' in at or 'Y' in at) else ((0, 0),):
                out.append({'kind': 'dyn', 'prog': dyn_program(tree, h, None, init, 1)})
            if h and len(h) <= 2:
                out.append({'kind': 'dyn', 'prog': dyn_program(tree, h, None, (0, 0), 2)})
                # the last change reverted by a second activity in the same time step
                t_last, a_last = h[-1]
                if a_last in REVERT:
                    out.append({'kind': 'dyn', 'prog': dyn_program(tree, h, [(t_last, REVERT[a_last])], (0, 0), 1)})
    for prog in route_programs():
        out.append({'kind': 'dynfault', 'prog': prog})
    for tree in NOW_TREES:
        at = atoms_of(tree)
        for h in histories(1):
            if h and not all(touches(a) in at for _, a in h):
                continue
            out.append({'kind': 'dyn', 'prog': dyn_program(tree, h, None, (0, 0), 1)})
            out.append({'kind': 'dyn', 'prog': dyn_program(tree, h, None, (1, 0), 2)})
    # the watched task is cancelled before its first turn while a waiter is already subscribed to its completion
    for tree in [t for t in dyn_trees if 't' in atoms_of(t)]:
        out.append({'kind': 'dyn', 'prog': dyn_program(tree, [(0, 'T!')], None, (0, 0), 1, task_last=True)})
    # the watched task is closed together with its scope before its first turn (the scope body raises right after
    # spawning it / is an until block on a true condition); the waiter comes before or after that
    for tree in [t for t in trees(False) if 't2' in atoms_of(subst(t))]:
        tree = subst(tree)
        for killer in ([['TRY', [['SCOPE', 'k', [['DO', 't2', [['D', 5]]], ['RAISE', 'KeyError', 'k']]]]]],
                       [['TRY', [['SCOPE', 'k', [['DO', 't2', [['D', 5]], {'after': 1}], ['RAISE', 'KeyError', 'k']]]]]],
                       [['UNTIL', 'k', ['GE', 0], [['DO', 't2', [['D', 5]]], ['D', 1]]]]):
            objs = {'A': 'Flag', 'B': 'Flag', 'X': ['Tracked', 0], 'Y': ['Tracked', 0], 'r': ['Resources', {'a': 0}]}
            waiter = ['DO', 'w1', [['WAIT', tree], ['PROBE', 'now']], {'volatile': True}]
            late = ['DO', 'w2', [['D', 1], ['WAIT', tree], ['PROBE', 'now']], {'volatile': True}]
            body = [['DO', 't', [['D', 5]]]] + killer + [waiter, late, ['D', 3]]
            out.append({'kind': 'dyn', 'prog': {'objs': objs, '_nops': 30, '_tree': tree,
                                                'roots': [['root', [['SCOPE', 's', body], ['PROBE', 'now']]]]}})
    # depth 3, alternating connectives: the decisive change happens in the innermost leaves
    leaves = [['F', 'A'], ['F', 'B'], ['T', 'X', '>=', 1], ['TT', 'X', '>=', 'Y'], ['R', 'r', '>=', {'a': 1}]]
    for a, b, c, d in itertools.permutations(leaves, 4):
        for shape in (['AND', a, ['OR', b, ['AND', c, d]]], ['OR', b, ['AND', a, ['OR', c, d]]],
                      ['AND', ['OR', ['AND', c, d], b], a]):
            at = atoms_of(shape)
            acts = [x for x in ('A+', 'B+', 'X+', 'Y-', 'R+') if touches(x) in at]
            for h in itertools.permutations(acts, 2 if tier == 'quick' else 3):
                hist3 = [(i, x) for i, x in enumerate(h)]
                out.append({'kind': 'dyn', 'prog': dyn_program(shape, hist3, None, (0, 1), 1)})
    # time atoms with dates that have no exact binary representation, awaited from such times
    for pre in (0.2, 0.3):
        for tree in (['GE', 0.9], ['EQ', 0.9], ['AND', ['F', 'A'], ['OR', ['GE', 0.9], ['EQ', 0.9]]], ['OR', ['EQ', 1.1], ['F', 'B']],
                     ['AND', ['GE', 0.7], ['LT', 1.1]]):
            for h in ([], [(0, 'A+')], [(1, 'A+')], [(1, 'B+')]):
                prog = dyn_program(tree, h, None, (0, 0), 1)
                for op in prog['roots'][0][1][0][2]:
                    if op[0] == 'DO' and op[1] == 'w1':
                        op[2].insert(0, ['D', pre])
                out.append({'kind': 'dyn', 'prog': prog})
    # a clock that starts below zero: the date 0 (falsy) lies in the future; time atoms on it alone and inside connectives
    for start in (-2, -1):
        z = -start            # (dates are written relative to the start time: this one is the absolute date 0)
        for tree in ([['GE', z], ['EQ', z], ['LT', z], ['NOT', ['GE', z]], ['NOT', ['LT', z]]]
                     + [[op, ta, fb] if left else [op, fb, ta] for op in ('AND', 'OR') for ta in (['GE', z], ['EQ', z], ['LT', z], ['GE', z + 1])
                        for fb in (['F', 'A'], ['T', 'X', '>=', 1]) for left in (True, False)]
                     + [['AND', ['OR', ['GE', z], ['F', 'B']], ['F', 'A']], ['OR', ['AND', ['EQ', z], ['F', 'A']], ['F', 'B']]]):
            at = atoms_of(tree)
            for h in ([], [(0, 'A+')], [(z, 'A+')], [(z + 1, 'A+')], [(1, 'X+')], [(z, 'X+')], [(z + 1, 'X+'), (z + 1, 'A+')], [(0, 'A+'), (z, 'A-')],
                      [(z + 1, 'B+')]):
                if h and not all(touches(a) in at for _, a in h):
                    continue
                for nw in (1, 2):
                    out.append({'kind': 'dyn', 'prog': dyn_program(tree, h, None, (0, 0), nw, start=start)})
    # the flag raised and lowered through its inverse, (~flag).set(...), while waiters are parked on the flag / its inverse / trees
    a_trees = [t for t in trees(False) if 'A' in atoms_of(t)] + [['AND', ['OR', ['F', 'A'], ['F', 'B']], ['T', 'X', '==', 0]],
                                                                ['OR', ['AND', ['NOT', ['F', 'A']], ['F', 'B']], ['T', 'X', '>=', 1]]]
    for tree in a_trees:
        for h in ([(0, 'nA+')], [(1, 'nA+')], [(1, 'nA+'), (1, 'nA-')], [(1, 'nA+'), (2, 'nA-')], [(0, 'A+'), (1, 'nA-')], [(0, 'nA-'), (1, 'nA+')],
                  [(0, 'nA+'), (1, 'A-')], [(1, 'nA+'), (2, 'B+')], [(1, 'B+'), (2, 'nA+')]):
            for nw in (1, 2):
                out.append({'kind': 'dyn', 'prog': dyn_program(tree, h, None, (0, 0), nw)})
            if len(h) == 1:
                out.append({'kind': 'dyn', 'prog': dyn_program(tree, h, [(h[0][0], 'nA-')], (0, 0), 1)})
                out.append({'kind': 'dyn', 'prog': dyn_program(tree, h, [(h[0][0], 'A-')], (0, 0), 1)})
    # tracked values and right operands that have a .value attribute of their own (enum members; objects whose .value is
    # equal although they are not), compared with == / != against such constants and against the number in their .value
    IDLE, BUSY = {'$': 'enum', 'n': 'IDLE'}, {'$': 'enum', 'n': 'BUSY'}
    BA, BB = {'$': 'box', 'l': 'a', 'v': 0}, {'$': 'box', 'l': 'b', 'v': 0}
    for init0, consts, acts in ((IDLE, (IDLE, BUSY, 1, 2), ('XB', 'XI')), (BA, (BA, BB, 0), ('Xb', 'Xa'))):
        oatoms = [['T', 'X', op, c] for op in ('==', '!=') for c in consts]
        otrees = (oatoms + [['NOT', a] for a in oatoms] + [[op, a, ['F', 'A']] for op in ('AND', 'OR') for a in oatoms]
                  + [['AND', ['F', 'A'], ['OR', a, ['F', 'B']]] for a in oatoms])
        for tree in otrees:
            at = atoms_of(tree)
            for h in ([], [(1, acts[0])], [(1, acts[0]), (2, acts[1])], [(1, acts[0]), (1, acts[1])], [(0, 'A+'), (1, acts[0])],
                      [(1, acts[0]), (2, 'A+')], [(0, acts[0]), (1, acts[1]), (2, acts[0])]):
                if h and not all(touches(a) in at for _, a in h):
                    continue
                for nw in (1, 2):
                    out.append({'kind': 'dyn', 'prog': dyn_program(tree, h, None, (init0, 0), nw)})
    # a setter that is cancelled at each of its activation boundaries: the change it made must still wake the waiters
    simple = [t for t in trees(False) if len(atoms_of(t) & {'X', 'Y', 'r', 'A'}) >= 1][:60]
    for tree in simple:
        at = atoms_of(tree)
        for a in ('X+', 'Y-', 'R+', 'A+'):
            if touches(a) in at:
                out.append({'kind': 'dynfault', 'prog': dyn_program(tree, [(1, a)], None, (0, 1), 1)})
    return out


def judge_dyn(program, faults=()):
    tree = program['_tree']
    snaps = []

    def observe(ctx, loop, k):
        snaps.append((k, loop.time, len(ctx.log), ctx.interp.snapshot()))
    ctx = run_one(program, faults, observe=observe)
    msgs = []
    log = ctx.log
    waited = False
    # (ii) truth at the moment the wait returns
    for idx, (kind, act, pc, now, data) in enumerate(log):
        if kind == 'wait-done':
            v = dict(data)
            v['start'] = program.get('start', 0)
            v.setdefault('done:t', False)
            v.setdefault('done:t2', False)
            if not ev(tree, v):
                msgs.append('%s: await returned at %r while the expression %r is false (%r)' % (act, now, tree, data))
            si = next(i for i in range(idx - 1, -1, -1) if log[i][0] == 'start' and log[i][1] == act and log[i][2] == pc)
            st = log[si]
            if st[3] != now:
                waited = True
            elif ctx.log_act[si] == ctx.log_act[idx]:
                # `await c` always lets other activities run at least once (the loop's FIFO order is monitored, so one
                # suspension is enough): the wait may not begin and end within one activation
                msgs.append('%s: await of %r completed within the activation that started it' % (act, tree))
    # (iii) never left waiting at the end of a time step in which the expression holds
    for i, (k, t, loglen, snap) in enumerate(snaps):
        last_of_step = i + 1 == len(snaps) or snaps[i + 1][1] != t
        if not last_of_step:
            continue
        waiting = {}
        for kind, act, pc, now, data in log[:loglen]:
            if kind == 'start' and data == 'WAIT':
                waiting[(act, pc)] = now
            elif kind in ('end', 'exc') and (act, pc) in waiting:
                del waiting[(act, pc)]
        v = dict(snap)
        v['start'] = program.get('start', 0)
        v.setdefault('done:t', False)
        v.setdefault('done:t2', False)
        if waiting and ev(tree, v):
            msgs.append('%r still waiting at the end of time step %r although %r holds (%r)' % (
                sorted(a for a, _ in waiting), t, tree, snap))
            break
    msgs += kernel_health(ctx, ignore=lambda act, pc, x: isinstance(x, AssertionError) and 'decrease below zero' in str(x))
    if ctx.outcome is not None:
        msgs.append('run() raised %r' % (ctx.outcome,))
    return msgs, waited


def explore_case(case, tier):
    if case['kind'] == 'algebra':
        msgs, n = algebra_case(case)
        return {'execs': 1, 'nontrivial': 1, 'outcomes': {'algebra': 1}, 'counters': {'algebra_evaluations': n},
                'viol': [{'faults': [], 'msgs': msgs}] if msgs else []}
    if case['kind'] == 'dynfault':
        from .. import faults as F
        bounds = []
        ctx0 = run_one(case['prog'], (), observe=F.observer(bounds))
        pts, _ = F.cancel_points(ctx0, bounds, victims=['h1'])
        n, viol, nt = 0, [], 0
        for k, v in [(None, None)] + pts:
            f = [] if k is None else [{'k': k, 'kind': 'cancel', 'victim': v, 'token': 'x'}]
            msgs, waited = judge_dyn(case['prog'], f)
            n += 1
            nt += int(waited)
            if msgs:
                viol.append({'faults': f, 'msgs': msgs})
        return {'execs': n, 'nontrivial': nt, 'outcomes': {'dynfault': n}, 'viol': viol, 'counters': {}}
    msgs, waited = judge_dyn(case['prog'])
    return {'execs': 1, 'nontrivial': int(waited), 'outcomes': {'dyn/' + ('waited' if waited else 'direct'): 1},
            'viol': [{'faults': [], 'msgs': msgs}] if msgs else [], 'counters': {}}


def replay(case, faults):
    if case['kind'] == 'algebra':
        return algebra_case(case)[0]
    return judge_dyn(case['prog'], faults or ())[0]
