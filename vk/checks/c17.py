"""C17 - Concurrent[...] handlers select exactly the documented sets of failures."""
import gc
import itertools
from usim import Concurrent

PROPERTY = 'C17'
LEVEL = 'exploration'
RULE = ('complete enumeration over a hierarchy (LookupError > {KeyError, IndexError}, ValueError, RuntimeError, two distinct classes '
        'both named "Error", nested Concurrent[KeyError] and Concurrent[KeyError, ValueError]): every multiset of <= 3 child failures x '
        'every handler specialisation of <= 3 types (plain and nested, Concurrent[LookupError], Concurrent[KeyError, ...], bare Concurrent as a '
        'listed type) with and '
        'without trailing ..., plus bare Concurrent x the three mechanisms isinstance / issubclass / a real except clause, compared with '
        'a reference predicate written from the statement; class identity under permutation and duplication of children; flattened() '
        'leaf order; all of it under the native frozenset and under forward / reverse / alternating (neighbouring containers in opposite directions) iteration order of the specialisation sets. '
        'non-trivial = the reference predicate says "match" for a handler that is not the exact class of the failure, or "no match" '
        'although some listed type matches some child')
ASSUMPTIONS = [
    'the reference predicate (40 lines, vk/checks/c17.py: ref_sub) is the specification',
    'known finding C17/except-ignores-subclasscheck: CPython matches except clauses by real MRO, so a handler that is not a base '
    'class of the raised specialisation does not catch although the rule says match',
]

ErrA = type('Error', (Exception,), {'__module__': 'pkg_a'})
ErrB = type('Error', (Exception,), {'__module__': 'pkg_b'})
LEAVES = [LookupError, KeyError, IndexError, ValueError, RuntimeError, ErrA, ErrB]
# the roots of the hierarchy as listed types: Exception covers every leaf but NOT a nested Concurrent (which derives from
# BaseException directly; BaseException itself may not be listed - usage assertion)
ROOTS = [Exception]
BARE = 'BARE'


def C(types, inclusive=False):
    return ('C', frozenset(types), inclusive)


CHILD_KINDS = LEAVES + [C([KeyError]), C([KeyError, ValueError])]
HANDLER_TYPES = LEAVES + [C([KeyError]), C([LookupError]), C([KeyError], True), BARE] + ROOTS     # (bare Concurrent as a listed type)


def ref_sub(c, s):
    """reference: is type c matched by type s (subclasses count)?"""
    if s == BARE:
        return c == BARE or (isinstance(c, tuple) and c[0] == 'C')
    if isinstance(s, tuple):
        if not (isinstance(c, tuple) and c[0] == 'C'):
            return False
        if c == s:
            return True
        _, S, incl = s
        _, Cs, _ = c
        if not all(any(ref_sub(cc, ss) for cc in Cs) for ss in S):
            return False
        return incl or all(any(ref_sub(cc, ss) for ss in S) for cc in Cs)
    if isinstance(c, tuple) or c == BARE:
        return issubclass(Concurrent, s)        # a nested failure is matched by a plain listed type iff Concurrent derives from it
    return issubclass(c, s)


def real(t):
    if t == BARE:
        return Concurrent
    if isinstance(t, tuple):
        _, S, incl = t
        items = tuple(real(x) for x in sorted(S, key=repr)) + ((...,) if incl else ())
        return Concurrent[items]
    return t


def instance(kind):
    if isinstance(kind, tuple):
        return Concurrent(*[instance(k) for k in sorted(kind[1], key=repr)])
    return kind('x')


def kind_of_instance_children(kinds):
    return C(set(kinds))


def handlers():
    out = [BARE]
    for n in (1, 2, 3):
        for combo in itertools.combinations(range(len(HANDLER_TYPES)), n):
            S = [HANDLER_TYPES[i] for i in combo]
            out.append(C(S, False))
            out.append(C(S, True))
    return out


def raised():
    out = [[]]       # a failure without children: the unspecialised Concurrent()
    for n in (1, 2, 3):
        for combo in itertools.combinations_with_replacement(range(len(CHILD_KINDS)), n):
            out.append([CHILD_KINDS[i] for i in combo])
    return out


POLICIES = ('native', 'forward', 'reverse', 'altA', 'altB')


def BOUNDS(tier):
    return {'child_multisets': len(raised()), 'handlers': len(handlers()), 'mechanisms': 3, 'iteration_policies': list(POLICIES)}


def cases(tier):
    hs = handlers()
    chunk = 12
    out = []
    for pol in POLICIES:
        for i in range(0, len(hs), chunk):
            out.append({'policy': pol, 'lo': i, 'hi': min(len(hs), i + chunk)})
        out.append({'policy': pol, 'identity': True})
    return out


def set_policy(pol):
    import sys
    from .. import choicesets
    mod = sys.modules['usim._primitives.concurrent_exception']
    Concurrent.__specialisations__.clear()
    if pol == 'native':
        mod.__dict__.pop('frozenset', None)
        mod.__dict__.pop('set', None)
    else:
        choicesets._policy[0] = pol
        choicesets._created[0] = 0
        mod.__dict__['frozenset'] = choicesets.ChoiceFrozenSet
        mod.__dict__['set'] = choicesets.ChoiceSet


def describe(t):
    if t == BARE:
        return 'Concurrent'
    if isinstance(t, tuple):
        return 'Concurrent[%s%s]' % (', '.join(sorted(describe(x) for x in t[1])), ', ...' if t[2] else '')
    return '%s.%s' % (t.__module__, t.__name__) if t.__name__ == 'Error' else t.__name__


def explore_case(case, tier):
    set_policy(case['policy'])
    viol = []
    n = 0
    nontrivial = 0
    try:
        if case.get('identity'):
            msgs = identity_checks()
            n = 1
            nontrivial = 1
            if msgs:
                viol.append({'faults': [], 'msgs': msgs})
        else:
            hs = handlers()[case['lo']:case['hi']]
            real_h = [real(h) for h in hs]
            exc = None
            for kinds in raised():
                # the handlers live as long as this case, every failure and its class die before the next one is made: the
                # verdict may depend only on the types involved, not on what the handler was asked before
                del exc
                gc.collect()
                exc = Concurrent(*[instance(k) for k in kinds])
                ctype = C(set(kinds)) if kinds else BARE
                for h, rh in zip(hs, real_h):
                    want = ref_sub(ctype, h)
                    n += 1
                    if want and not (h == ctype) or (not want and h != BARE and ctype != BARE
                                                     and any(ref_sub(c, s) for c in ctype[1] for s in h[1])):
                        nontrivial += 1
                    try:
                        got_i = isinstance(exc, rh)
                    except Exception as e:      # noqa
                        got_i = e
                    try:
                        got_s = issubclass(type(exc), rh)
                    except Exception as e:      # noqa
                        got_s = e
                    try:
                        try:
                            raise exc
                        except rh:
                            got_e = True
                    except BaseException:
                        got_e = False
                    if isinstance(got_i, Exception) or isinstance(got_s, Exception):
                        viol.append({'faults': {'mechanism': 'error'}, 'msgs': ['%s: matching a failure with children [%s] against %s raised %r / %r' % (
                            case['policy'], ', '.join(describe(k) for k in kinds), describe(h), got_i, got_s)]})
                        continue
                    for mech, got in (('isinstance', got_i), ('issubclass', got_s), ('except', got_e)):
                        if got != want:
                            in_mro = rh in type(exc).__mro__
                            viol.append({'faults': {'mechanism': mech, 'want': want, 'got': got, 'handler_in_mro': in_mro},
                                         'msgs': ['%s: failure with children [%s] vs handler %s: rule says %s, %s says %s' % (
                                             case['policy'], ', '.join(describe(k) for k in kinds), describe(h),
                                             'match' if want else 'no match', mech, 'match' if got else 'no match')]})
                # the same questions asked with an empty class cache and the FAILURE created first (its class then comes
                # from the tuple of the children's types, duplicates included; the handler class is looked up afterwards)
                if len(kinds) - len(set(map(repr, kinds))):
                    for h in hs:
                        if h == BARE:
                            continue
                        Concurrent.__specialisations__.clear()
                        exc2 = Concurrent(*[instance(k) for k in kinds])
                        want = ref_sub(ctype, h)
                        try:
                            got_f = isinstance(exc2, real(h))
                        except Exception as e:      # noqa
                            got_f = e
                        n += 1
                        if got_f != want:
                            viol.append({'faults': {'mechanism': 'failure-first', 'want': want, 'got': repr(got_f)},
                                         'msgs': ['%s: failure with children [%s] created BEFORE the handler %s: rule says %s, isinstance says %r' % (
                                             case['policy'], ', '.join(describe(k) for k in kinds), describe(h),
                                             'match' if want else 'no match', got_f)]})
                        del exc2
                    # (back to the regular regime: handlers first, all of them alive)
                    Concurrent.__specialisations__.clear()
                    real_h[:] = [real(h) for h in hs]
    finally:
        set_policy('native')
    return {'execs': n, 'nontrivial': nontrivial, 'outcomes': {case['policy']: 1}, 'viol': viol, 'counters': {}}


def identity_checks():
    msgs = []
    kinds_list = [k for k in raised() if k]
    for kinds in kinds_list:
        base = type(Concurrent(*[instance(k) for k in kinds]))
        for perm in set(itertools.permutations(kinds)):
            t = type(Concurrent(*[instance(k) for k in perm]))
            if t is not base:
                msgs.append('type of a failure depends on the order of its children: %s' % ([describe(k) for k in perm],))
                break
        dup = type(Concurrent(*[instance(k) for k in list(kinds) + [kinds[0]]]))
        if dup is not base and len(set(map(repr, kinds))) == len(set(map(repr, list(kinds) + [kinds[0]]))):
            msgs.append('type of a failure depends on the multiplicity of its children: %s' % ([describe(k) for k in kinds],))
        spec = [real(k) for k in kinds]
        if Concurrent[tuple(spec)] is not Concurrent[tuple(reversed(spec))]:
            msgs.append('Concurrent[A, B] is not Concurrent[B, A] for %s' % ([describe(k) for k in kinds],))
        if Concurrent[tuple(spec)] is not base:
            msgs.append('Concurrent[%s] is not the class of a failure with exactly these children' % ([describe(k) for k in kinds],))
        if len(msgs) > 5:
            return msgs
    # a class that was FIRST created for a failure with repeated child types is the class of that set of types and nothing
    # else: asked as a handler afterwards, it decides every other failure like a handler created afresh
    for dup in [k for k in raised() if len(k) - len(set(map(repr, k)))]:
        Concurrent.__specialisations__.clear()
        first = Concurrent(*[instance(k) for k in dup])
        h = C(set(dup))
        rh = real(h)
        for kinds in raised():
            if not kinds:
                continue
            want = ref_sub(C(set(kinds)), h)
            if isinstance(Concurrent(*[instance(k) for k in kinds]), rh) != want:
                msgs.append('after a failure with children [%s] was created first, handler %s %s a failure with children [%s]' % (
                    ', '.join(describe(k) for k in dup), describe(h), 'rejects' if want else 'selects',
                    ', '.join(describe(k) for k in kinds)))
                break
        del first
        if len(msgs) > 5:
            return msgs
    Concurrent.__specialisations__.clear()
    # distinct classes with equal names must give distinct specialisations
    if Concurrent[ErrA] is Concurrent[ErrB] or isinstance(Concurrent(ErrA('x')), Concurrent[ErrB]):
        msgs.append('two different exception classes that share a __name__ give the same specialisation')
    # identity must not depend on how many other specialisations were created in between
    first = Concurrent[KeyError, IndexError]
    keep = type(Concurrent(KeyError('a'), IndexError('b')))
    others = []
    for i in range(300):
        exc = type('Err%d' % i, (Exception,), {})
        others.append(Concurrent[exc])
    if Concurrent[KeyError, IndexError] is not first or type(Concurrent(IndexError('b'), KeyError('a'))) is not keep or first is not keep:
        msgs.append('Concurrent[KeyError, IndexError] is no longer the identical class after 300 other specialisations were created')
    del others
    # flattened(): leaves and their order
    leaves = [KeyError('a'), IndexError('b'), ValueError('c'), RuntimeError('d'), LookupError('e')]
    shapes = [
        ([leaves[0], [leaves[1], leaves[2]]], [0, 1, 2]),
        ([[leaves[0], leaves[1]], leaves[2]], [0, 1, 2]),
        ([[leaves[0], [leaves[1], leaves[2]]], [leaves[3], leaves[4]]], [0, 1, 2, 3, 4]),
        ([[leaves[2], leaves[1], leaves[0]]], [2, 1, 0]),
        ([leaves[0], leaves[1]], [0, 1]),
    ]

    def build(shape):
        return Concurrent(*[build(x) if isinstance(x, list) else x for x in shape])
    # the very same nested failure object occurring twice (two activities that awaited the same failed task)
    shared = Concurrent(leaves[0], leaves[1])
    deep = Concurrent(shared, leaves[2])
    for top, order in ((Concurrent(shared, leaves[2], shared), [0, 1, 2, 0, 1]), (Concurrent(shared, shared), [0, 1, 0, 1]),
                       (Concurrent(deep, leaves[3], Concurrent(leaves[4], shared)), [0, 1, 2, 3, 4, 0, 1])):
        got = list(top.flattened().children)
        want = [leaves[i] for i in order]
        if len(got) != len(want) or any(a is not b for a, b in zip(got, want)):
            msgs.append('flattened() of a failure that contains the same nested failure twice gives %r, expected %r' % (got, want))
    # leaves that only look like containers / nothing: flattened() must treat everything that is not a Concurrent as a leaf
    class Agg(Exception):
        children = (ValueError('inner'),)

        def flattened(self):
            return ValueError('not me')

        def __iter__(self):
            return iter(self.children)

    class Falsy(Exception):
        def __bool__(self):
            return False

        def __len__(self):
            return 0

    class EqAll(Exception):
        def __eq__(self, other):
            return True

        def __hash__(self):
            return 7
    odd = [Agg('agg'), Falsy(), EqAll('e1'), EqAll('e2'), Agg('agg2')]
    for shape, order in (([odd[0], leaves[0]], [0, 'k0']), ([[odd[0], odd[1]], odd[2]], [0, 1, 2]), ([odd[2], [odd[3], odd[1]]], [2, 3, 1]),
                         ([odd[0], odd[4]], [0, 4]), ([odd[1]], [1]), ([[odd[1]], [odd[2], odd[3]]], [1, 2, 3]), ([odd[2], odd[3]], [2, 3])):
        flat = build(shape).flattened()
        got = list(flat.children)
        want = [leaves[0] if i == 'k0' else odd[i] for i in order]
        if len(got) != len(want) or any(a is not b for a, b in zip(got, want)):
            msgs.append('flattened() of a failure whose leaves define children / __iter__ / __bool__ / __eq__ gives %r, expected the '
                        'leaves %r' % (got, want))
        if not isinstance(flat, Concurrent) or type(flat) is not type(Concurrent(*want)):
            msgs.append('flattened() of %r is of type %r, not the class of its leaves' % (shape, type(flat)))
    for shape, order in shapes:
        flat = build(shape).flattened()
        got = list(flat.children)
        want = [leaves[i] for i in order]
        if len(got) != len(want) or any(a is not b for a, b in zip(got, want)):
            msgs.append('flattened() gives %r, expected the leaves in order %r' % (got, want))
    return msgs


def replay(case, faults):
    r = explore_case(case, 'quick')
    return [m for v in r['viol'] for m in v['msgs']][:10]


def except_ignores_subclasscheck(case, faults, msgs):
    """known finding: only the except clause disagrees, in the direction 'rule says match, not caught', and the handler is
    not a base class of the raised specialisation (CPython matches except clauses by MRO)"""
    return (isinstance(faults, dict) and faults.get('mechanism') == 'except' and faults.get('want') is True
            and faults.get('got') is False and faults.get('handler_in_mro') is False)


MATCHERS = {'except_ignores_subclasscheck': except_ignores_subclasscheck}
