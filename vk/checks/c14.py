"""C14 - interval() ticks on a fixed grid, delay() pauses a fixed span, for any body."""
import itertools
from usim import IntervalExceeded
from ..run import run_one
from ..oracles import kernel_health
from ..dsl import num

PROPERTY = 'C14'
LEVEL = 'exploration'
RULE = ('every loop "async for now in interval(p)/delay(p)" with p in {0,1,2,0.5} (and -1), every sequence of <= 3 (quick) / 4 '
        '(thorough) body durations from {none, instant, 1, 2, 3}, start time in {0,3,0.5}, iterator created 0 or 1 before iterating; '
        'alone, next to a second ticker, inside until(delay), cut off by run(till=), next to a volatile ticker that is closed while '
        'pausing (the root ticks on afterwards), launched with scope.do(at=/after=) from start times {0,-2,-4}, and with integer clocks '
        'at 2**53 and 10**17+1, with bodies that run a nested simulation, and (one deviation) cancelled at every activation boundary '
        'next to two sibling tickers; always next to a competing activity that is runnable in every time '
        'step. Oracle: arithmetic model of tick times / yielded values / IntervalExceeded, and the competitor must get a turn between '
        'two iterations whenever the clock does not advance; non-trivial = some body took at least as long as the period, or p = 0')
ASSUMPTIONS = [
    'the grid of interval() starts when iteration starts (first step of the async for), not when interval() is called',
    'durations and periods from a small set; <= 4 iterations',
]
INF = float('inf')
DUR = {'n': [], 'i': [['INSTANT']], 1: [['D', 1]], 2: [['D', 2]], 3: [['D', 3]], 0.5: [['D', 0.5]],
       0.1: [['D', 0.1]], 0.7: [['D', 0.7]], 1.1: [['D', 1.1]], 0.2: [['D', 0.2]],
       # bodies that run a complete nested simulation
       's0': [['SUBRUN', 2]], 's1': [['D', 1], ['SUBRUN', 0]],
       # a body (first tick of a ticker with period 5 that starts at 0) with an until block whose notification fires at 8 - in
       # the very time step in which a child ticker of that block raises IntervalExceeded; the body handles what comes out
       'u3': [['TRY', [['UNTIL', 'bu', ['EQ', 8], [['DO', 'ct', [['INTERVAL', 1, 2, [[['D', 2]], []]]]], ['ETERNITY']]]]]],
       'u3g': [['TRY', [['UNTIL', 'bu', ['GE', 8], [['DO', 'ct', [['DELAYLOOP', 1, 3, [[['D', 1]], [['RAISE', 'KeyError', 'ct']], []]]]],
                                                     ['ETERNITY']]]]]],
       # bodies of exactly one period 2**-32, and of one and a half such periods
       'p32': [['D', 2.0 ** -32]], 'p32l': [['D', 1.5 * 2.0 ** -32]]}


def dur(d):
    return {'n': 0, 'i': 0, 's0': 0, 's1': 1, 'u3': 3, 'u3g': 3, 'p32': 2.0 ** -32, 'p32l': 1.5 * 2.0 ** -32}.get(d, d)


def spinner(times):
    s = []
    for t in times:
        s += [['EQ', t], ['SPINLOG', 3]]
    return s


def program(kind, period, durs, start, pre, second=None, until=None, launch=None, closed=None, whole=False, till=None, until_flag=None):
    """launch: options of scope.do for the ticker ({'at': t} / {'after': d}); closed: (kind, period) of a volatile ticker in the same
    scope that is closed forcefully while it pauses - the root ticks on afterwards; whole: only whole-numbered dates are used
    (for clocks so large that halves cannot be represented); till: run(till=...), the ticker is cut off there"""
    op = [kind, period, len(durs), [DUR[d] for d in durs]] + ([pre] if pre else [])
    script = [['TRY', [op]], ['PROBE', 'now']]
    if until is not None:
        script = [['UNTIL', 'u', ['DELAY', until], [['TRY', [op]]]], ['PROBE', 'now']]
    if until_flag is not None:
        script = [['UNTIL', 'u', ['F', 'A'], [['TRY', [op]]]], ['PROBE', 'now']]
    kids = [['DO', 'tk', script] + ([launch] if launch else [])]
    if until_flag is not None:
        # the helper's wake-up for that date is queued ahead of everything the ticker schedules later: it raises the flag
        # first, and the interrupt of the until block is queued BEHIND the wake-up with which the ticker's body ends
        kids.insert(0, ['DO', 'h', [['D', until_flag], ['SET', 'A', True]]])
    if second:
        k2, p2, d2 = second
        kids.append(['DO', 'tk2', [['TRY', [[k2, p2, len(d2), [DUR[d] for d in d2]]]], ['PROBE', 'now']]])
    after = []
    if closed:
        k3, p3 = closed
        kids.insert(0, ['DO', 'tkv', [[k3, p3, 50, [[] for _ in range(50)]]], {'volatile': True}])
        # the simulation goes on past the date at which the closed ticker would have ticked next
        after = [['TRY', [['INTERVAL', 2, 3, [[], [], []]]]], ['D', 8], ['PROBE', 'now']]
    horizon = [x * (1 if whole else 0.5) for x in range(0, 15 if whole else 30)]
    kids.append(['DO', 'spin', spinner(horizon), {'volatile': True}])
    prog = {'start': start, '_nops': 200, '_meta': {'kind': kind, 'period': period, 'durs': list(durs), 'pre': pre, 'until': until,
                                                     'launch': launch, 'till': till, 'until_flag': until_flag}, 'objs': {'A': 'Flag'},
            'roots': [['root', [['SCOPE', 's', kids]] + after]]}
    if till is not None:
        prog['till'] = till
    return prog


def BOUNDS(tier):
    return {'quick': {'iterations': 3, 'periods': [0, 1, 2, 0.5, -1]}, 'thorough': {'iterations': 4, 'periods': [0, 1, 2, 0.5, -1]}}[tier]


def cases(tier):
    out = []
    n = 3 if tier == 'quick' else 4
    durs = ['n', 'i', 1, 2, 3]
    seqs = []
    for k in range(1, n + 1):
        seqs += list(itertools.product(durs, repeat=k))
    for kind in ('INTERVAL', 'DELAYLOOP'):
        for period in (0, 1, 2):
            for seq in seqs:
                for start in (0, 3):
                    out.append(program(kind, period, seq, start, None))
                if len(seq) <= 2:
                    out.append(program(kind, period, seq, 0.5, None))
                    out.append(program(kind, period, seq, 0, 1))
                    out.append(program(kind, period, seq, 0, None, until=3))
                    if period:
                        for tf in (2, 3, 4, 5):
                            out.append(program(kind, period, seq, 0, None, until_flag=tf))
                    for k2 in ('INTERVAL', 'DELAYLOOP'):
                        out.append(program(kind, period, seq, 0, None, second=(k2, period, seq)))
                        out.append(program(kind, period, seq, 0, None, second=(k2, 1, ('n', 'n'))))
        for seq in seqs[:30]:
            out.append(program(kind, 0.5, [0.5 if d == 1 else d for d in seq], 0, None))
        out.append(program(kind, -1, ('n',), 0, None))
        # a negative start time whose grid runs through 0
        for period in (1, 2):
            for seq in seqs[:40]:
                out.append(program(kind, period, seq, -2, None))
        # periods that have no exact binary representation, with bodies that last exactly one period
        for period in (0.1, 0.7, 1.1):
            for k in (2, 3, 4, 6):
                for seq in ([period] * k, ['n'] + [period] * (k - 1), [period, 'i'] * (k // 2)):
                    out.append(program(kind, period, seq, 0, None))
                    out.append(program(kind, period, seq, 0.2, None))
    # periods that are exact rationals (any number works as a period), and an infinite period: the first pause ends at time infinity
    for kind in ('INTERVAL', 'DELAYLOOP'):
        for period in ({'$': 'frac', 'n': 1, 'd': 3}, {'$': 'frac', 'n': 5, 'd': 2}, {'$': 'frac', 'n': 0, 'd': 1}):
            for seq in seqs[:30]:
                for start in (0, 3):
                    out.append(program(kind, period, seq, start, None))
        for start in (0, 3, -2):
            for seq in (('n',), ('i',)):
                out.append(program(kind, 'inf', seq, start, None))
                out.append(program(kind, 'inf', seq, start, None, second=('INTERVAL', 1, ('n', 'n'))))
    # a ticker that is closed forcefully while it pauses (volatile child at the end of its scope / run(till=...)) leaves
    # nothing behind: the tickers that go on afterwards are undisturbed
    for kind in ('INTERVAL', 'DELAYLOOP'):
        for period in (1, 2):
            for seq in seqs[:30]:
                for closed in (('INTERVAL', 3), ('DELAYLOOP', 7), ('INTERVAL', 5)):
                    out.append(program(kind, period, seq, 0, None, closed=closed))
                for till in (2, 3, 4):
                    out.append(program(kind, period, seq, 0, None, till=till))
                    out.append(program(kind, period, seq, 3, None, till=till))
    # very short periods: a pause of 2**-32 is a pause
    for kind in ('INTERVAL', 'DELAYLOOP'):
        for period in (2.0 ** -32, 2.0 ** -40):
            for seq in (('n',), ('n', 'n', 'n'), ('i', 'n', 'i'), ('n', 'i')):
                for start in (0, 3):
                    out.append(program(kind, period, seq, start, None))
    # bodies that last exactly one very short period / slightly longer than it (IntervalExceeded is exact, not "about")
    for kind in ('INTERVAL', 'DELAYLOOP'):
        for seq in (('p32',), ('p32', 'n'), ('p32l',), ('n', 'p32l', 'n'), ('p32', 'p32', 'n'), ('p32l', 'p32l')):
            for start in (0, 3):
                out.append(program(kind, 2.0 ** -32, seq, start, None))
    # a body with an until block that ends in the time step in which its child ticker fails
    for kind in ('INTERVAL', 'DELAYLOOP'):
        for seq in (('u3', 'n'), ('u3', 'n', 'n'), ('u3g', 'n'), ('u3g', 1, 'n')):
            out.append(program(kind, 5, seq, 0, None))
            out.append(program(kind, 5, seq, 0, None, second=('INTERVAL', 2, ('n', 'n', 'n', 'n', 'n', 'n'))))
    # bodies that run a nested simulation (the ticker's own simulation must be undisturbed afterwards)
    for kind in ('INTERVAL', 'DELAYLOOP'):
        for period in (0, 1, 2):
            for seq in (('s0',), ('s1',), ('s0', 's0'), ('s1', 'n', 's0'), ('n', 's1', 's1'), (1, 's0', 2)):
                out.append(program(kind, period, seq, 0, None))
                out.append(program(kind, period, seq, 3, None, second=('INTERVAL', 1, ('n', 'n', 'n'))))
    # the ticker is cancelled at every activation boundary (also in the time step of its last tick): siblings tick on
    for kind in ('INTERVAL', 'DELAYLOOP'):
        for period in (1, 2):
            for seq in seqs[:30]:
                p = program(kind, period, seq, 0, None, second=('INTERVAL', 1, ('n', 'n', 'n', 'n')), closed=('DELAYLOOP', 3))
                p['_cancel'] = True
                out.append(p)
    # tickers launched with scope.do(..., at= / after=): the grid is anchored where the ticker really starts
    for kind in ('INTERVAL', 'DELAYLOOP'):
        for period in (1, 2):
            for seq in seqs[:12]:
                for start in (0, -2, -4):
                    for launch in ({'at': 2}, {'at': 4}, {'after': 2}, {'after': 0}, {'at': 0}):
                        out.append(program(kind, period, seq, start, None, launch=launch))
    # integer clocks beyond the range in which floats are exact: dates stay exact integers
    for kind in ('INTERVAL', 'DELAYLOOP'):
        for period in (1, 2):
            for seq in seqs[:12]:
                for start in (2 ** 53, 10 ** 17 + 1):
                    out.append(program(kind, period, seq, start, None, whole=True))
    return out


def expected(meta, t_begin):
    """ticks: list of (time); outcome: ('end', t) | ('exceeded', t) | ('valueerror', t)"""
    kind, p, durs = meta['kind'], meta['period'], meta['durs']
    if p < 0:
        return [], ('valueerror', t_begin)
    ticks = []
    if kind == 'INTERVAL':
        t = t_begin
        tick = t_begin
        for i, d in enumerate(durs):
            tick = tick + p          # the grid start + k*p, accumulated tick by tick (matters only for inexact floats)
            if t > tick:
                return ticks, ('exceeded', t)
            ticks.append(tick)
            t = tick + dur(d)
        return ticks, ('end', t)
    t = t_begin
    for d in durs:
        tick = t + p
        ticks.append(tick)
        t = tick + dur(d)
    return ticks, ('end', t)


def judge(ctx, program, hit=()):
    msgs = []
    log = ctx.log
    nontrivial = False
    launch = program['_meta'].get('launch')
    start = program.get('start', 0)
    for act in ('tk', 'tk2', 'root', 'tkv'):
        begin = next((i for i, r in enumerate(log) if r[0] == 'iter-begin' and r[1] == act), None)
        if begin is None:
            if act == 'root' and len(program['roots'][0][1]) > 1 and program['_meta'].get('till') is None:
                msgs.append('the root never started to tick after its scope')
            continue
        pc = log[begin][2]
        op = op_of(program, act, pc)
        meta = {'kind': op[0], 'period': num(op[1]), 'durs': program['_meta']['durs'] if act == 'tk' else None}
        if act != 'tk':
            meta['durs'] = durs_of(op)
        if act == 'tk' and launch:
            anchor = start + launch['at'] if 'at' in launch else start + launch['after']
            if log[begin][3] != anchor:
                msgs.append('ticker launched with %r in a simulation starting at %r began to iterate at %r, expected %r' % (
                    launch, start, log[begin][3], anchor))
        dl = INF
        if program['_meta'].get('till') is not None:
            dl = start + program['_meta']['till']
        if act == 'tkv':
            # a volatile ticker ticks until its scope ends (not just until the block of the scope ends)
            left = next((r[3] for r in log if r[0] == 'scope-left' and r[1] == 'root'), None)
            dl = min(dl, left) if left is not None else dl
        if act in hit:
            # the cancelled ticker: what it did before must be right, nothing is required of it afterwards
            c = next((r[3] for r in log if r[0] == 'inject' and r[1] == act), INF)
            dl = min(dl, c)
        if program['_meta']['until'] is not None and act == 'tk':
            ent = next(r for r in log if r[0] == 'scope-enter' and r[1] == act)
            dl = min(dl, ent[3] + program['_meta']['until'])
        flag_tie = False
        if program['_meta'].get('until_flag') is not None and act == 'tk':
            dl = min(dl, start + program['_meta']['until_flag'])
            flag_tie = True
        ticks, outcome = expected(meta, log[begin][3])
        got = [(i, r[3], r[4]) for i, r in enumerate(log) if r[0] == 'tick' and r[1] == act and r[2] == pc]
        fin = next(((r[0], r[3], r[4]) for r in log[begin:] if r[0] in ('end', 'exc') and r[1] == act and r[2] == pc), None)
        want = [t for t in ticks if t < dl or dl == INF]      # (no deadline: a tick at time infinity counts too)
        tie = [t for t in ticks if t == dl and dl != INF]
        if act in hit:
            tie = tie + [t for t in ticks if t > dl][:0]
        gt = [t for _, t, _ in got]
        if gt[:len(want)] != want or len(gt) > len(want) + len(tie):
            msgs.append('%s %s(%r) ticked at %r, expected %r' % (act, meta['kind'], meta['period'], gt, want + tie))
        for i, t, v in got:
            if v != t:
                msgs.append('%s: tick at %r yielded %r instead of the current time' % (act, t, v))
        kind_, t_out = outcome
        # (an overrun that is complete in the time step in which the flag of the enclosing until block is raised: the body's
        # wake-up is queued ahead of the block's interrupt, so the overrun is noticed first)
        if t_out < dl or dl == INF or (flag_tie and kind_ == 'exceeded' and t_out == dl and ticks and ticks[-1] < dl):
            if kind_ == 'end' and (fin is None or fin[0] != 'end' or fin[1] != t_out):
                msgs.append('%s: loop should end normally at %r, got %r' % (act, t_out, fin))
            if kind_ == 'exceeded' and (fin is None or fin[0] != 'exc' or not isinstance(fin[2], IntervalExceeded) or fin[1] != t_out):
                msgs.append('%s: IntervalExceeded expected at %r, got %r' % (act, t_out, fin))
            if kind_ == 'valueerror' and (fin is None or fin[0] != 'exc' or not isinstance(fin[2], ValueError)):
                msgs.append('%s: ValueError expected for a negative period, got %r' % (act, fin))
        if kind_ != 'exceeded' and fin is not None and fin[0] == 'exc' and isinstance(fin[2], IntervalExceeded):
            msgs.append('%s: IntervalExceeded raised at %r although no body run took longer than the period' % (act, fin[1]))
        if meta['period'] == 0 or any(dur(d) >= meta['period'] for d in meta['durs']):
            nontrivial = True
        # the competitor gets a turn between two iterations (or before the first) whenever the clock does not advance
        marks = [begin] + [i for i, _, _ in got]
        for a, b in zip(marks, marks[1:]):
            # a = previous tick (or begin); the body of that iteration ends at the last record of this activity before b
            e = max(i for i in range(a, b) if log[i][1] == act)
            if log[e][3] != log[b][3]:
                continue
            # the loop is FIFO (monitored): suspending once lets everything that was runnable run first, so the
            # step yields iff the end of the previous body and the tick were logged in different activations
            if ctx.log_act[e] == ctx.log_act[b]:
                msgs.append('%s: iteration at %r started without suspending once after the previous body' % (act, log[b][3]))
    msgs += kernel_health(ctx)
    if ctx.outcome is not None:
        msgs.append('run() raised %r' % (ctx.outcome,))
    return msgs, nontrivial


def durs_of(op):
    out = []
    for b in op[3]:
        if not b:
            out.append('n')
        elif b[0][0] == 'INSTANT':
            out.append('i')
        else:
            out.append(b[0][1])
    return out


def op_of(program, act, pc):
    from .c04 import ST_op
    return ST_op(program, act, pc)


def check_exec(program, faults=()):
    ctx = run_one(program, faults)
    msgs, nontrivial = judge(ctx, program, hit={f['victim'] for f in faults})
    return ctx, msgs, nontrivial


def explore_case(program, tier):
    ctx, msgs, nontrivial = check_exec(program)
    rep = {'execs': 1, 'nontrivial': int(nontrivial), 'outcomes': {program['_meta']['kind']: 1},
           'viol': [{'faults': [], 'msgs': msgs}] if msgs else [], 'counters': {}}
    if program.get('_cancel') and not msgs:
        from .. import faults as F
        bounds = []
        ctx0 = run_one(program, (), observe=F.observer(bounds))
        pts, _ = F.cancel_points(ctx0, bounds, victims=['tk'])
        for k, v in pts:
            f = [{'k': k, 'kind': 'cancel', 'victim': v, 'token': 'x'}]
            _, m, _ = check_exec(program, f)
            rep['execs'] += 1
            rep['nontrivial'] += 1
            rep['outcomes']['cancel'] = rep['outcomes'].get('cancel', 0) + 1
            if m:
                rep['viol'].append({'faults': f, 'msgs': m})
    return rep


def replay(case, faults):
    return check_exec(case, faults)[1]
