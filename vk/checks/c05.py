"""C05 - a scope fails as itself or as Concurrent: promptly, with exactly the right content."""
from usim import Concurrent
from usim._core.loop import Interrupt
from usim._primitives.task import CancelTask, TaskCancelled, TaskClosed
from usim._primitives.context import CancelScope, ScopeClosed
from ..oracles import kernel_health, describe
from . import scopetree as ST
from .c04 import ST_op, trigger_time, judge as c04_judge

PROPERTY = 'C05'
LEVEL = 'fault_enumeration'
RULE = ('the scope-tree programs of C04 (1-3 children per block incl. simultaneous failures, failures during graceful shutdown, '
        'nested Concurrent, privileged types; 6 bodies; Scope and until blocks), fault-free and with a cancel at every activation '
        'boundary of owner/children and swept close/until-interrupt of the owner. Oracle: from the OBSERVED list F of exception '
        'objects with which direct children ended before the block was left, exactly one outcome is admissible (nothing / the very '
        'body exception / Concurrent(F by identity, order, multiplicity) / first privileged object), and the block ends at the time of '
        'the first failure; non-trivial = the block ended with an exception or a child failed')
ASSUMPTIONS = [
    'the failure list F is read from the log (order of occurrence = order of the abort records of direct children)',
    'a body exception that is a foreign interrupt (owner cancelled/closed, enclosing block ended) must pass through unchanged',
]
cases = ST.cases
PRIVILEGED = (SystemExit, KeyboardInterrupt, AssertionError)
SUPPRESSED = (TaskCancelled, TaskClosed, GeneratorExit)


def BOUNDS(tier):
    return {'children_per_scope': 3, 'nesting': 2, 'deviations': 1}


def judge(ctx, program):
    msgs = []
    log = ctx.log
    direct, owns, script_of, desc = ST.structure(program)
    nontrivial = False
    keys = []
    for name, act, pc, e_idx, l_idx in ST.scope_instances(ctx):
        if l_idx is None:
            continue
        scope_obj = ctx.scopes.get(name)
        accepted = log[l_idx + 1][4][1] if l_idx + 1 < len(log) and log[l_idx + 1][0] == 'scope-children' else {}
        # F: failures of direct children, in order of occurrence, before the block was left
        F, Ftimes, Stimes = [], [], []
        for i in range(e_idx, l_idx):
            r = log[i]
            if r[0] == 'abort' and r[1] in accepted:
                x = r[4]
                if isinstance(x, (TaskCancelled, TaskClosed)):
                    # a child that ends with the cancellation of a task it awaited has failed (the block is aborted at that
                    # time) although a Concurrent never lists it
                    Stimes.append(r[3])
                if isinstance(x, (GeneratorExit, CancelTask)) or isinstance(x, SUPPRESSED):
                    continue
                if isinstance(x, Interrupt):
                    continue
                F.append(x)
                Ftimes.append(r[3])
        body = next((log[i][4][1] for i in range(e_idx, l_idx) if log[i][0] == 'scope-body-exc' and log[i][1] == act
                     and log[i][2] == pc), None)
        body_time = next((log[i][3] for i in range(e_idx, l_idx) if log[i][0] == 'scope-body-exc' and log[i][1] == act
                          and log[i][2] == pc), None)
        own_signal = isinstance(body, CancelScope) and body.subject is scope_obj
        op_rec = next((log[i] for i in range(l_idx, min(len(log), l_idx + 4)) if log[i][1] == act and log[i][2] == pc
                       and log[i][0] in ('end', 'exc')), None)
        if op_rec is None:
            continue
        got = op_rec[4] if op_rec[0] == 'exc' else None
        priv = next((x for x in F if isinstance(x, PRIVILEGED)), None)
        if body is not None and not own_signal:
            if isinstance(body, PRIVILEGED) and type(body) in PRIVILEGED:
                expect = ('is', body)
            elif priv is not None:
                expect = ('is', priv)
            else:
                expect = ('is', body)
        else:
            if priv is not None:
                expect = ('is', priv)
            elif F:
                expect = ('concurrent', F)
            else:
                expect = ('none', None)
        # an interruption from outside that arrives while the block waits for its children has no body-exc record:
        # it shows as `got` being a foreign interrupt; accept it as "body exception" of the shutdown phase
        if body is None and isinstance(got, (CancelTask, GeneratorExit, CancelScope)) and not (
                isinstance(got, CancelScope) and got.subject is scope_obj):
            expect = ('is', got) if priv is None else ('is', priv)
        kind, val = expect
        if kind == 'none':
            if got is not None:
                msgs.append('block %s raised %s although neither its body nor a child failed' % (name, describe(got)))
        elif kind == 'is':
            # (closing a coroutine raises a fresh GeneratorExit at every await level: compare those by type)
            if got is not val and not (isinstance(got, GeneratorExit) and isinstance(val, GeneratorExit)):
                msgs.append('block %s raised %s, expected the very object %s' % (name, describe(got), describe(val)))
        else:
            if not isinstance(got, Concurrent):
                msgs.append('block %s raised %s, expected Concurrent of %r' % (name, describe(got), [describe(x) for x in val]))
            else:
                ch = list(got.children)
                if len(ch) != len(val) or any(a is not b for a, b in zip(ch, val)):
                    msgs.append('block %s raised Concurrent%r, expected exactly the child failures %r (identity, order, once)' % (
                        name, [describe(x) for x in ch], [describe(x) for x in val]))
        if isinstance(got, Concurrent):
            ids = [id(c) for c in got.children]
            if len(set(ids)) != len(ids):
                msgs.append('Concurrent of block %s carries the same exception object more than once: %r' % (
                    name, [describe(c) for c in got.children]))
            for c in got.children:
                if isinstance(c, SUPPRESSED) or isinstance(c, Interrupt) or c is body:
                    msgs.append('Concurrent of block %s contains %s' % (name, describe(c)))
        # promptness: the block ends at the time of the first failure
        first = [t for t in Ftimes[:1]] + Stimes[:1] + ([body_time] if body is not None else [])
        if first:
            t0 = min(first)
            if log[l_idx][3] != t0:
                msgs.append('block %s: first failure at %r but the block ended at %r' % (name, t0, log[l_idx][3]))
        if got is not None or F:
            nontrivial = True
        keys.append('%s' % (type(got).__name__ if got is not None else 'ok'))
    # "the first failure aborts the body and all remaining children": the containment monitor of C04 on this execution
    msgs += [m for m in c04_judge(ctx, program)[0] if m not in msgs]
    return msgs, nontrivial, '+'.join(sorted(set(keys))) or 'noscope'


def explore_case(program, tier):
    return ST.explore(program, tier, judge)


def replay(case, faults):
    return ST.replay_exec(case, faults, judge)
