"""C04 - no task outlives its scope (structured concurrency containment)."""
from usim._primitives.task import CancelTask
from usim._primitives.context import CancelScope, ScopeClosed
from ..oracles import kernel_health
from . import scopetree as ST

PROPERTY = 'C04'
LEVEL = 'fault_enumeration'
RULE = ('scope trees: one owner with a Scope/until block holding 1-3 children drawn from 15 shapes (finishing, failing, privileged '
        'failure, nested scopes with own children, late spawner, graceful waiter, child that spawns in its finally, volatile tickers) '
        'x 6 bodies (normal, raising, privileged) x 4 block kinds (Scope, until(delay 1|2), until(flag)), plus outsiders spawning into '
        'the scope before/after its end; fault-free and with one deviation: cancel of the owner or of any child at every activation '
        'boundary, forceful close and until-interrupt of the owner swept over every queue position. Oracle: descendant monitor on the '
        'log; non-trivial = a scope was left while some child had not finished on its own')
ASSUMPTIONS = [
    '<= 3 children per scope, nesting depth 2, delays from {1,2,3}',
    'descendant sets are computed statically from the program; "code ran" = any interpreter log record of that activity',
    'normal-exit obligations are only judged for blocks that ended without exception and, for until, before the trigger time',
]
cases = ST.cases


def BOUNDS(tier):
    return {'children_per_scope': 3, 'nesting': 2, 'deviations': 1}


FINAL = ('SUCCESS', 'FAILED', 'CANCELLED')


def judge(ctx, program):
    msgs = []
    log = ctx.log
    direct, owns, script_of, desc = ST.structure(program)
    injected = {r[1] for r in log if r[0] == 'inject'}
    nontrivial = False
    aborted = 0
    for name, act, pc, e_idx, l_idx in ST.scope_instances(ctx):
        if l_idx is None:
            continue
        descendants = desc(name)
        # (a) no code of any descendant runs after the block was left
        for i in range(l_idx + 1, len(log)):
            r = log[i]
            if r[1] in descendants and r[0] not in ('inject',):
                msgs.append('%s of %s ran at %r after the block %s was left at %r' % (r[0], r[1], r[3], name, log[l_idx][3]))
                break
        # (b) every accepted child is done
        kids = log[l_idx + 1][4][1] if l_idx + 1 < len(log) and log[l_idx + 1][0] == 'scope-children' else {}
        for c, st in kids.items():
            if st not in FINAL:
                msgs.append('block %s was left at %r while its child %s is %s' % (name, log[l_idx][3], c, st))
        flags = log[l_idx + 1][4][2] if kids and len(log[l_idx + 1][4]) > 2 else {}
        for c, done in flags.items():
            if not done:
                msgs.append('block %s was left at %r while `done` of its child %s is still false' % (name, log[l_idx][3], c))
        if any(st != 'SUCCESS' for st in kids.values()):
            nontrivial = True
        # how did the block end?
        op_end = next((log[i] for i in range(l_idx, min(len(log), l_idx + 4)) if log[i][1] == act and log[i][2] == pc
                       and log[i][0] in ('end', 'exc')), None)
        body_exc = any(log[i][0] == 'scope-body-exc' and log[i][1] == act and log[i][2] == pc for i in range(e_idx, l_idx))
        # a child that ended with an exception of its own (also a TaskCancelled it received by awaiting a cancelled
        # task, which the scope does not report) is a child failure: the block is aborted, not left normally
        child_failed = any(log[i][0] == 'abort' and log[i][1] in kids and not isinstance(log[i][4], (GeneratorExit, CancelTask))
                           for i in range(e_idx, l_idx))
        normal = op_end is not None and op_end[0] == 'end' and not body_exc and not child_failed
        op = ST_op(program, act, pc)
        if normal and op and op[0] == 'UNTIL':
            trig = trigger_time(ctx, op, log[e_idx][3])
            if trig is not None and log[l_idx][3] >= trig:
                normal = False
        if normal:
            # (c) every non-volatile child that was not individually cancelled ran to completion
            for c, st in kids.items():
                sc, opts = script_of[c]
                if opts.get('volatile') or c in injected:
                    continue
                fin = any(r[0] == 'finish' and r[1] == c for r in log[:l_idx]) or opts.get('bare') is not None
                if st != 'SUCCESS' or not fin:
                    msgs.append('block %s ended normally at %r but its child %s did not run to completion (%s)' % (
                        name, log[l_idx][3], c, st))
            # (d) volatile children are closed only after all non-volatile ones finished
            for c in kids:
                sc, opts = script_of[c]
                if not opts.get('volatile'):
                    continue
                closed_at = next((i for i, r in enumerate(log) if r[0] == 'abort' and r[1] == c
                                  and isinstance(r[4], GeneratorExit)), None)
                if closed_at is None:
                    continue
                for s in kids:
                    if s != c and not script_of[s][1].get('volatile'):
                        last = max((i for i, r in enumerate(log[:l_idx]) if r[1] == s and r[0] != 'inject'), default=-1)
                        if last > closed_at:
                            msgs.append('volatile child %s was closed before its sibling %s had finished' % (c, s))
        else:
            aborted += 1
        # (e) spawning into an ended scope is refused, the payload discarded
        for i in range(l_idx + 1, len(log)):
            r = log[i]
            if r[0] == 'end' and r[4] is None and ST_op(program, r[1], r[2]) and ST_op(program, r[1], r[2])[0] == 'DO':
                o = ST_op(program, r[1], r[2])
                if (o[3] or {}).get('scope') == name if len(o) > 3 else False:
                    msgs.append('%s spawned %s into block %s after it had ended' % (r[1], o[1], name))
    for idx, (kind, act, pc, now, data) in enumerate(log):
        if kind == 'exc' and isinstance(data, ScopeClosed):
            o = ST_op(program, act, pc)
            if o and o[0] == 'DO' and any(r[0] == 'begin' and r[1] == o[1] for r in log):
                msgs.append('%s was refused by the closed scope but its code ran' % o[1])
    msgs += kernel_health(ctx)
    key = 'aborted' if aborted else 'normal'
    return msgs, nontrivial, key


def ST_op(program, act, pc):
    script = None
    for n, s in program['roots']:
        if n == act:
            script = s
    if script is None:
        _, _, script_of, _ = ST.structure(program)
        if act not in script_of:
            return None
        script = script_of[act][0]
    op = None
    for i in pc:
        if isinstance(i, int):
            if i >= len(script):
                return None
            op = script[i]
            subs = [a for a in op[1:] if isinstance(a, list) and (not a or isinstance(a[0], list))]
            script = subs[-1] if subs else []
        elif i == 't':
            script = op[1]
        elif i == 'f':
            script = op[2]
    return op


def trigger_time(ctx, op, entered):
    notif = op[2]
    if notif[0] == 'DELAY':
        return entered + notif[1]
    if notif[0] == 'GE':
        return max(entered, notif[1])
    if notif[0] == 'EQ':
        return notif[1] if notif[1] >= entered else None
    if notif[0] == 'F':
        for kind, act, pc, now, data in ctx.log:
            if kind == 'start' and data == 'SET' and now >= entered:
                return now
        return None
    return None


def explore_case(program, tier):
    return ST.explore(program, tier, judge)


def replay(case, faults):
    return ST.replay_exec(case, faults, judge)
