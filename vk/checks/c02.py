"""C02 - the trace is a function of the program alone (deterministic FIFO turn order)."""
import collections
import hashlib
import json
import os
import subprocess
import sys
import time as wall
from ..run import run_one
from .. import faults as F
from ..digest import digest

PROPERTY = 'C02'
LEVEL = 'model_checking'
VERIF = os.path.dirname(os.path.dirname(os.path.dirname(os.path.abspath(__file__))))
ASSUMPTIONS = [
    'memory layouts cannot be enumerated; their only channel into behaviour - the iteration order of unordered containers '
    'that usim constructs by name - is enumerated instead (all orders for <= 3 elements); set literals would escape this and '
    'are reported by an AST scan',
    'configurations compared: wait-queue backend heap/SD, python -O (programs that hit no usage assertion), PYTHONHASHSEED '
    '0/1/2, three deterministic heap-perturbation patterns, the cyclic garbage collector run after every single activation (all '
    'other configurations run with the collector off: the two extremes of when garbage dies); all in fresh processes',
    'the digest covers every interpreter log record (activity, operation, time, value) and every activation (time, activity, '
    'signal kind) in order; class names of Concurrent specialisations are not part of it',
]

CONFIGS = {
    'base': {},
    'sd': {'USIM_WAITQUEUE': 'SD'},
    'opt': {'_opt': '1'},
    'hash1': {'PYTHONHASHSEED': '1'},
    'hash2': {'PYTHONHASHSEED': '2'},
    'heap1': {'VK_HEAP_PATTERN': '1'},
    'heap2': {'VK_HEAP_PATTERN': '2', 'PYTHONHASHSEED': '1'},
    'heap3': {'VK_HEAP_PATTERN': '3', 'USIM_WAITQUEUE': 'SD'},
    'gc': {'VK_GC': '1'},
    'gcheap': {'VK_GC': '1', 'VK_HEAP_PATTERN': '2'},
}


# ---- (a) explicit-state search over the two real wait queues -----------------------------------------
def waitq_search(depth, cap=400000):
    """BFS over push/pop sequences applied in lock-step to the two real classes and a reference.
    Visited-state key = canonical content PLUS the internal key layout of the heap backend: equal content reached by a
    different push order can sit differently in the heap, and a layout-dependent defect must not be merged away."""
    import copy
    from usim._core.waitq import HQWaitQueue, SDWaitQueue
    KEYS = (1, 2, 3, 10, 20, 21, 22, float('inf'))
    ITEM0 = 1000        # items are the integers from 1000 on, keys are smaller (or infinite)

    class Ref:
        def __init__(self):
            self.d = {}

        def push(self, k, item):
            self.d.setdefault(k, []).append(item)

        def pop(self):
            k = min(self.d)
            return k, self.d.pop(k)

        def __bool__(self):
            return bool(self.d)

        def __len__(self):
            return sum(len(v) for v in self.d.values())

    def canon(qs):
        ref = qs[2]
        out, ren = [], {}
        for k in sorted(ref.d):
            out.append((k, tuple(ren.setdefault(x, len(ren)) for x in ref.d[k])))
        layout = tuple(getattr(qs[0], '_keys', ()))
        # hidden state: whatever else the two real objects carry (a cache, a cursor, a stale reference to a deque that was
        # handed out) decides their futures as well - every attribute of both objects goes into the key, items renamed
        hidden = tuple(_walk(_attrs(q), ren) for q in qs[:2])
        return (tuple(out), layout, hidden)

    def _attrs(q):
        names = []
        for klass in type(q).__mro__:
            sl = klass.__dict__.get('__slots__', ())
            names += [sl] if isinstance(sl, str) else list(sl)
        names += list(getattr(q, '__dict__', {}))
        return [(n, getattr(q, n)) for n in sorted(set(names)) if hasattr(q, n) and n != '__weakref__']

    def _walk(x, ren, depth=0):
        if isinstance(x, int) and not isinstance(x, bool) and x >= ITEM0:
            return ('item', ren.setdefault(x, len(ren)))
        if isinstance(x, (int, float, str, bool, type(None))):
            return x
        if depth > 6:
            return type(x).__name__
        if isinstance(x, dict):
            return ('map',) + tuple(sorted(((_walk(k, ren, depth + 1), _walk(v, ren, depth + 1)) for k, v in x.items()), key=repr))
        if isinstance(x, (set, frozenset)):
            return ('set',) + tuple(sorted((_walk(v, ren, depth + 1) for v in x), key=repr))
        if isinstance(x, (list, tuple, collections.deque)):
            return ('seq',) + tuple(_walk(v, ren, depth + 1) for v in x)
        return type(x).__name__

    start = [HQWaitQueue(), SDWaitQueue(), Ref()]
    seen = {canon(start)}
    frontier = collections.deque([(start, (), ITEM0)])
    transitions = 0
    msgs = []
    samples = []
    capped = False
    while frontier:
        qs0, hist, n0 = frontier.popleft()
        if len(hist) >= depth:
            continue
        # one push per distinct new key is enough for the heap; a second item on an existing key exercises the deque
        present = set(qs0[2].d)
        ops = [k for k in KEYS if k not in present] + ([min(present)] if present and len(hist) < 4 else []) + (['pop'] if qs0[2] else [])
        for op in ops:
            qs = copy.deepcopy(qs0)
            n = n0
            transitions += 1
            if op == 'pop':
                try:
                    res = [q.pop() for q in qs]
                except Exception as e:      # noqa
                    msgs.append('after %r: pop raised %r' % (hist, e))
                    return msgs, len(seen), transitions, samples, capped
                obs = [(k, list(items)) for k, items in res]
                if not (obs[0] == obs[1] == obs[2]):
                    msgs.append('after %r: pop gives heap=%r SD=%r reference=%r' % (hist, obs[0], obs[1], obs[2]))
            else:
                for q in qs:
                    q.push(op, n)
                n += 1
            state = [(bool(q), len(q)) for q in qs]
            if not (state[0] == state[1] == state[2]):
                msgs.append('after %r + %r: (bool, len) heap=%r SD=%r reference=%r' % (hist, op, state[0], state[1], state[2]))
            if msgs:
                return msgs, len(seen), transitions, samples, capped
            c = canon(qs)
            if c not in seen:
                if len(seen) >= cap:
                    capped = True
                    continue
                seen.add(c)
                frontier.append((qs, hist + (op,), n))
                if len(samples) < 3 and len(hist) >= 4:
                    samples.append({'history': [str(x) for x in hist + (op,)], 'state': str(c)})
    return msgs, len(seen), transitions, samples, capped


# ---- corpora ---------------------------------------------------------------------------------------
_CORPUS = {}


def corpus(tier, which):
    key = (tier, which)
    if key in _CORPUS:
        return _CORPUS[key]
    if which.startswith('file:'):
        _CORPUS[key] = [json.load(open(which[5:]))]
        return _CORPUS[key]
    import importlib
    out = []
    if which == 'config':
        strides = [('c01', 300), ('c04', 25), ('c06', 10), ('c07', 20), ('c08', 900), ('c09', 30), ('c10', 40), ('c11', 50),
                   ('c12', 40), ('c13', 80), ('c14', 40), ('c16', 60)]
    else:
        strides = [('c04', 20), ('c08', 250), ('c12', 25), ('c16', 80), ('c05', 97)]
    div = 4 if tier == 'thorough' else 1
    for name, stride in strides:
        mod = importlib.import_module('vk.checks.' + name)
        progs = mod.cases('quick')
        for p in progs[::max(1, stride // div)]:
            if isinstance(p, dict) and p.get('kind') == 'algebra':
                continue
            prog = p['prog'] if isinstance(p, dict) and 'prog' in p else p
            out.append(prog)
    out += recycled_family()
    if which == 'sets':
        out += sets_family()
    else:
        # programs with dates that have no exact binary representation, requested from different current times
        import importlib as _il
        c01 = _il.import_module('vk.checks.c01')
        frac = [p for p in c01.cases('quick') if '0.9' in repr(p['roots']) or '0.7' in repr(p['roots'])]
        out += frac[::max(1, len(frac) // (120 * div))]
        # delays below the resolution of the clock value (now + d == now): the activation is queued for the date that is being
        # drained right now - the one place where the time-keyed queue is asked for the key it handed out last
        out += [p for p in c01.cases('quick') if p.get('start') in (10 ** 9, 1e9)]
        out += absorbed_family()
        out += abandoned_family()
        out += inexact_pipe_family()[::3]
    _CORPUS[key] = out
    return out


def recycled_family():
    """long-lived and short-lived comparisons / waits on the same objects over several steps: whatever is freed and re-used in
    between (by reference counting, by the cyclic collector, at whatever address) may not change who runs when"""
    out = []
    for nshort in (1, 2, 3):
        for long_first in (True, False, None):
            for steps in (3, 5):
                shorts = [['DO', 's%d' % i, [x for k in range(1, steps + 1) for x in (['WAIT', ['T', 'X', '>=', k]], ['PROBE', 'now'])]]
                          for i in range(nshort)]
                longs = [['DO', 'l0', [['WAIT', ['T', 'X', '>=', 2]], ['PROBE', 'now'], ['WAIT', ['T', 'X', '>=', steps]], ['PROBE', 'now']]],
                         ['DO', 'l1', [['WAIT', ['TT', 'X', '>=', 'Y']], ['PROBE', 'now'], ['WAIT', ['T', 'X', '>=', steps - 1]], ['PROBE', 'now']]]]
                kids = (longs + shorts) if long_first else ((shorts + longs) if long_first is False else (shorts[:1] + longs + shorts[1:]))
                helper = [x for k in range(steps) for x in (['D', 1], ['TADD', 'X', 1])]
                kids.append(['DO', 'h', helper])
                out.append({'objs': {'X': ['Tracked', 0], 'Y': ['Tracked', 3]}, '_nops': 80, 'roots': [['root', [['SCOPE', 's', kids]]]]})
    # a value that was waited for earlier and is now set to what it already is, next to a runnable competitor
    for nw in (1, 2):
        kids = [['DO', 'w%d' % i, [['WAIT', ['T', 'X', '>=', 1]], ['PROBE', 'now']]] for i in range(nw)]
        kids.append(['DO', 'h', [['D', 1], ['TADD', 'X', 1], ['D', 1], ['TSET', 'X', 1], ['PROBE', 'now'], ['TSET', 'X', 1], ['PROBE', 'now']]])
        kids.append(['DO', 'spin', [['EQ', 2], ['SPINLOG', 4]]])
        out.append({'objs': {'X': ['Tracked', 0]}, '_nops': 60, 'roots': [['root', [['SCOPE', 's', kids]]]]})
    # the same with flags that are set and reset, and resource levels
    for n in (2, 3):
        kids = [['DO', 'w%d' % i, [['WAIT', ['F', 'A']], ['PROBE', 'now'], ['WAIT', ['NF', 'A']], ['PROBE', 'now'], ['WAIT', ['F', 'A']], ['PROBE', 'now']]]
                for i in range(n)]
        kids.append(['DO', 'r0', [['WAIT', ['R', 'r', '>=', {'a': 2}]], ['PROBE', 'now']]])
        kids.append(['DO', 'h', [['D', 1], ['SET', 'A', True], ['D', 1], ['SET', 'A', False], ['INC', 'r', {'a': 1}], ['D', 1], ['SET', 'A', True],
                                 ['INC', 'r', {'a': 1}]]])
        out.append({'objs': {'A': 'Flag', 'r': ['Resources', {'a': 0}]}, '_nops': 80, 'roots': [['root', [['SCOPE', 's', kids]]]]})
    return out


def absorbed_family():
    out = []
    tiny = 1e-9
    for st in (10 ** 9, 2.0 ** 53):
        d = tiny if st == 10 ** 9 else 1
        for first in ([['D', d]], [['INSTANT'], ['D', d]], [['D', 1 if st == 10 ** 9 else 4], ['D', d]]):
            for nother in (1, 2, 3):
                for other in ([['INSTANT'], ['INSTANT']], [['D', d], ['INSTANT']], [['INSTANT'], ['D', d], ['INSTANT']],
                              [['D', 1 if st == 10 ** 9 else 4], ['INSTANT'], ['INSTANT']]):
                    for pos in range(nother + 1):
                        roots = [['o%d' % i, [x for op in other for x in (op, ['PROBE', 'now'])]] for i in range(nother)]
                        roots.insert(pos, ['a', [x for op in first for x in (op, ['PROBE', 'now'])] + [['INSTANT'], ['PROBE', 'now']]])
                        out.append({'start': st, '_nops': 40, 'roots': roots})
    return out


def abandoned_family():
    """comparisons that are abandoned (used in a boolean context only, waited for and woken, given up by an until block) and a
    later change of the tracked value to something these comparisons cannot be evaluated for: whether an abandoned comparison
    is still around depends on when garbage dies, so it may have no effect at all"""
    out = []
    uses = {'bool': [['BOOL', ['T', 'X', '>', 30]], ['PROBE', 'now']],
            'wait': [['WAIT', ['T', 'X', '>=', 1]], ['PROBE', 'now']],
            'waittt': [['WAIT', ['TT', 'X', '>=', 'Y']], ['PROBE', 'now']],
            'until': [['UNTIL', 'u', ['DELAY', 1], [['WAIT', ['T', 'X', '>', 30]]]], ['PROBE', 'now']],
            'untilon': [['UNTIL', 'u', ['T', 'X', '>=', 1], [['D', 5]]], ['PROBE', 'now']],
            'conn': [['WAIT', ['OR', ['T', 'X', '>', 30], ['GE', 1]]], ['PROBE', 'now']]}
    for names in (('bool',), ('wait',), ('waittt',), ('until',), ('untilon',), ('conn',), ('bool', 'wait'), ('wait', 'until', 'bool')):
        for newval in (None, 'text', [1]):
            for gap in (1, 2):
                kids = [['DO', 'w%d' % i, uses[n]] for i, n in enumerate(names)]
                kids.append(['DO', 'h', [['D', 1], ['TADD', 'X', 1], ['D', gap], ['TRY', [['TSET', 'X', newval]]], ['PROBE', 'now'],
                                         ['TRY', [['TSET', 'Y', newval]]], ['PROBE', 'now']]])
                out.append({'objs': {'X': ['Tracked', 0], 'Y': ['Tracked', 1]}, '_nops': 60, 'roots': [['root', [['SCOPE', 's', kids]]]]})
    return out


def inexact_pipe_family():
    """congested pipes with three or four concurrent transfers whose limits do not add up exactly in binary floating point: the
    dates depend on the order in which the limits are added up, so that order must be a function of the program"""
    import itertools
    out = []
    for limits in ((0.1, 0.2, 0.3), (0.1, 0.2, 0.3, 0.7), (0.7, 0.1, 0.3), (1.1, 0.1, 0.2, 0.3)):
        for perm in list(itertools.permutations(limits))[::(1 if len(limits) == 3 else 5)]:
            for stagger in (0, 1):
                kids = [['DO', 'x%d' % i, ([['D', i * stagger]] if i * stagger else []) + [['XFER', 'p', 1 + i, lim], ['PROBE', 'now']]]
                        for i, lim in enumerate(perm)]
                out.append({'objs': {'p': ['Pipe', 0.5]}, '_nops': 60, 'roots': [['root', [['SCOPE', 's', kids], ['PROBE', 'now']]]]})
    return out


def sets_family():
    """programs whose behaviour would follow the iteration order of an unordered container if usim used one:
    several waiters on different comparisons of the same tracked values; several volatile children closed together"""
    out = []
    conds = [['T', 'X', '>=', 1], ['T', 'X', '>', 0], ['TT', 'X', '>=', 'Y'], ['T', 'X', '!=', 0], ['TT', 'X', '>', 'Y']]
    import itertools
    for n in (2, 3, 4):
        for cs in itertools.permutations(conds, n):
            if n == 4 and cs[0] != conds[0]:
                continue
            kids = [['DO', 'w%d' % i, [['WAIT', c], ['PROBE', 'now']]] for i, c in enumerate(cs)]
            kids.append(['DO', 'h', [['D', 1], ['TADD', 'X', 2]]])
            out.append({'objs': {'X': ['Tracked', 0], 'Y': ['Tracked', 1]}, '_nops': 30, 'roots': [['root', [['SCOPE', 's', kids]]]]})
    for n in (2, 3, 4):
        kids = [['DO', 'v%d' % i, [['FINALLY', [['ETERNITY']], [['PROBE', 'now']]]], {'volatile': True}] for i in range(n)]
        for body in ([['D', 1]], [['D', 1], ['RAISE', 'KeyError', 'b']]):
            out.append({'_nops': 30, 'roots': [['root', [['TRY', [['SCOPE', 's', kids + body]]], ['PROBE', 'now']]]]})
            out.append({'_nops': 30, 'roots': [['root', [['UNTIL', 'u', ['DELAY', 1], kids + [['D', 2]]], ['PROBE', 'now']]]]})
    # the program follows the verdict of matching a failure against Concurrent[...] of user-defined exception types
    for kids_t in (('SubA', 'SubB'), ('SubB', 'SubA'), ('SubA', 'BaseB'), ('SubA', 'SubB', 'KeyError')):
        for handler in (('BaseA', 'BaseB'), ('BaseB', 'BaseA'), ('SubA', 'BaseB'), ('BaseA', 'BaseB', 'LookupError'), ('BaseA',)):
            for incl in (False, True):
                kids = [['DO', 'f%d' % i, [['D', 1], ['RAISE', t, 'f%d' % i]]] for i, t in enumerate(kids_t)]
                out.append({'_nops': 30, 'roots': [['root', [['MATCH', [['SCOPE', 's', kids + [['D', 2]]]], list(handler), incl],
                                                             ['PROBE', 'now']]]]})
    out += inexact_pipe_family()
    for names in (['a', 'b'], ['b', 'a'], ['mem', 'cores', 'disk']):
        amounts = {n: 2 for n in names}
        kids = [['DO', 'u%d' % i, [['BORROW', 'r', {n: 1}, [['D', 1]]], ['PROBE', 'levels', 'r']]] for i, n in enumerate(names)]
        out.append({'objs': {'r': ['Resources', amounts]}, '_nops': 30, 'roots': [['root', [['SCOPE', 's', kids], ['PROBE', 'levels', 'r']]]]})
    return out


def digests_of(program):
    """digest of the fault-free execution and of every execution with one cancel at an activation boundary"""
    bounds = []
    ctx0 = run_one(program, (), observe=F.observer(bounds))
    d0, _ = digest(ctx0)
    # the loop monitors (FIFO order of every time step, dates met exactly, no work skipped) belong to this property
    monitor = [str(f)[:200] for f in ctx0.findings if f[0] in ('fifo-order', 'date-missed', 'work-skipped', 'clock-decreased',
                                                                'unqueued-activation', 'work-left-at-end')]
    asserted = any(r[0] == 'exc' and isinstance(r[4], AssertionError) for r in ctx0.log) or isinstance(ctx0.outcome, AssertionError)
    h = hashlib.sha1(d0.encode())
    n = 1
    pts, _ = F.cancel_points(ctx0, bounds)
    if len(pts) <= 60:
        for k, v in pts:
            ctx = run_one(program, [{'k': k, 'kind': 'cancel', 'victim': v, 'token': 'x'}])
            d, _ = digest(ctx)
            monitor += [str(f)[:200] for f in ctx.findings if f[0] in ('fifo-order', 'date-missed', 'work-skipped', 'clock-decreased',
                                                                       'unqueued-activation', 'work-left-at-end')][:2]
            asserted = asserted or any(r[0] == 'exc' and isinstance(r[4], AssertionError) for r in ctx.log)
            h.update(d.encode())
            n += 1
    return [h.hexdigest()[:16], n, bool(asserted), d0, monitor]


# ---- driver ----------------------------------------------------------------------------------------
def spawn(tier, which, cfg, env_extra, lo, hi, step):
    env = dict(os.environ)
    env.update({k: v for k, v in cfg.items() if not k.startswith('_')})
    env.update(env_extra)
    env['VK_CORPUS'] = which
    if 'USIM_WAITQUEUE' not in cfg:
        env.pop('USIM_WAITQUEUE', None)
    env.setdefault('PYTHONHASHSEED', '0')
    if 'PYTHONHASHSEED' in cfg:
        env['PYTHONHASHSEED'] = cfg['PYTHONHASHSEED']
    cmd = [sys.executable] + (['-O'] if cfg.get('_opt') else []) + ['-m', 'vk.c02worker', tier, str(lo), str(hi), str(step)]
    return subprocess.Popen(cmd, cwd=VERIF, env=env, stdout=subprocess.PIPE, stderr=subprocess.PIPE, text=True)


def start_matrix(tier, which, configs, shards):
    n = len(corpus(tier, which))
    procs = {}
    for name, (cfg, extra) in configs.items():
        for s in range(shards):
            procs[(name, s)] = spawn(tier, which, cfg, extra, s, n, shards)
    return procs


def collect_matrix(procs, configs):
    results = {name: {} for name in configs}
    errors = []
    for (name, s), p in procs.items():
        out, err = p.communicate()
        if p.returncode != 0:
            errors.append('%s shard %d failed: %s' % (name, s, err[-600:]))
            continue
        results[name].update({int(k): v for k, v in json.loads(out).items()})
    return results, errors


def run(tier, seed):
    t0 = wall.time()
    from .. import run as vrun
    from .. import explore
    vrun.setup_process()
    repo = os.environ.get('VERIF_REPO', '/repo')
    violations = []
    # the subprocesses of (b) and (c) are started first; (a) runs in this process meanwhile
    shards = 2
    confs = {name: (cfg, {}) for name, cfg in CONFIGS.items()}
    procs_b = start_matrix(tier, 'config', confs, shards)
    # (a)
    depth = 10 if tier == 'quick' else 12
    msgs, states, transitions, samples, capped = waitq_search(depth, 150000 if tier == 'quick' else 1500000)
    for m in msgs:
        violations.append({'part': 'waitq', 'msgs': [m]})
    # (b) configuration product
    res, errors = collect_matrix(procs_b, confs)
    prog_b = corpus(tier, 'config')
    execs = 0
    compared = 0
    if not errors:
        base = res['base']
        for i, v in sorted(base.items()):
            if len(v) > 4 and v[4]:
                violations.append({'part': 'monitor', 'index': i, 'program': prog_b[i], 'configs': ['base', 'base'],
                                   'msgs': ['turn-order monitor: ' + m for m in v[4][:3]]})
        for name in confs:
            execs += sum(v[1] for v in res[name].values())
            if name == 'base':
                continue
            for i, v in sorted(res[name].items()):
                if name == 'opt' and base[i][2]:
                    continue        # the program hits a usage assertion: -O may differ by specification
                compared += 1
                if v[0] != base[i][0]:
                    violations.append({'part': 'config', 'index': i, 'program': prog_b[i], 'configs': ['base', name],
                                       'shard': [i % shards, len(prog_b), shards], 'tier': tier,
                                       'msgs': ['trace digest differs between configuration base and %s (%s)' % (name, CONFIGS[name])]})
    # (c) iteration order of unordered containers as a choice
    from .. import choicesets
    pol = {p: ({}, {'VK_SET_POLICY': p}) for p in choicesets.POLICIES}
    res_c, err_c = collect_matrix(start_matrix(tier, 'sets', pol, shards), pol)
    errors += err_c
    prog_c = corpus(tier, 'sets')
    if not err_c:
        base = res_c['forward']
        for name in pol:
            execs += sum(v[1] for v in res_c[name].values())
            if name == 'forward':
                continue
            for i, v in sorted(res_c[name].items()):
                compared += 1
                if v[0] != base[i][0]:
                    violations.append({'part': 'sets', 'index': i, 'program': prog_c[i], 'configs': ['forward', name],
                                       'msgs': ['trace depends on the iteration order of an unordered container: policy forward vs %s' % name]})
    if errors:
        for e in errors:
            print('HARNESS-ERROR: ' + e)
        return 2
    literal, by_name = choicesets.scan_unordered(repo)
    status = 0
    replay_root = os.environ.get('VERIF_REPLAY_DIR') or os.path.join(VERIF, 'replays')
    os.makedirs(os.path.join(replay_root, PROPERTY), exist_ok=True)
    order = {'waitq': 0, 'monitor': 1, 'sets': 2, 'config': 3}
    violations.sort(key=lambda v: (order[v['part']], v.get('index', 0)))
    shown = 0
    unconfirmed = []
    for v in violations:
        if shown >= explore.MAX_VIOLATIONS or len(unconfirmed) >= explore.MAX_VIOLATIONS:
            break
        h = hashlib.sha1(json.dumps(v, sort_keys=True, default=str).encode()).hexdigest()[:12]
        path = os.path.join(replay_root, PROPERTY, h + '.json')
        json.dump({'property': PROPERTY, 'check': 'c02', 'tier': tier, 'case': v, 'faults': [], 'messages': v['msgs']},
                  open(path, 'w'), indent=1, default=str)
        if v['part'] != 'waitq':
            codes = explore.confirm(PROPERTY, path)
            # (a difference between configurations that follows object addresses is run-to-run nondeterminism - the very
            # defect; a replay can never report a difference on a tree that has none, so one reproduction is conclusive)
            if codes != [1, 1] and not (v['part'] == 'config' and 1 in codes and all(c in (0, 1) for c in codes)):
                unconfirmed.append((path, codes))       # not believed (see vk/explore.py); counts only if nothing else confirms
                continue
        for m in v['msgs'][:2]:
            print('  ' + m[:300])
        print('VIOLATION property=%s replay=%s' % (PROPERTY, path))
        status = 1
        shown += 1
    if unconfirmed and status == 0:
        for path, codes in unconfirmed:
            print('HARNESS-ERROR: replay of %s did not reproduce (exit codes %r)' % (path, codes))
        return 2
    for path, codes in unconfirmed:
        print('UNCONFIRMED (not counted): replay of %s did not reproduce (exit codes %r)' % (path, codes))
    k = seed % max(1, len(prog_b))
    evidence = {
        'property_id': PROPERTY, 'tier': tier, 'seed': seed, 'level': LEVEL,
        'coverage': {
            'states': states, 'transitions': transitions,
            'traces_validated_against_impl': transitions + execs,
            'samples': samples + [{'program': prog_b[k]}, {'program': prog_c[seed % len(prog_c)]}],
            'evaluations': execs, 'distinct_nontrivial': compared,
            'rule': '(a) BFS over all push(k in {1,2,3,10,20,21,22,inf})/pop sequences to depth %d applied in lock-step to HQWaitQueue, SDWaitQueue and a '
                    'dict reference, visited states keyed by canonical content plus the heap backend\'s internal key layout; (b) %d corpus programs (strided union of all native families), '
                    'each fault-free and with a cancel at every activation boundary, under %d configurations in fresh processes, digests must '
                    'be equal; (c) %d programs under all %d iteration-order policies of injected set/frozenset/WeakSet. distinct_nontrivial = '
                    'number of (program, configuration) digest comparisons made' % (depth, len(prog_b), len(CONFIGS), len(prog_c), len(pol)),
            'exhaustive': not capped,
            'bounds': {'waitq_depth': depth, 'waitq_state_cap_hit': capped, 'configurations': list(CONFIGS), 'set_policies': list(pol),
                       'corpus_programs': len(prog_b), 'sets_programs': len(prog_c)},
            'unordered_constructions_by_name': by_name, 'unordered_literals_not_interceptable': literal,
        },
        'assumptions': ASSUMPTIONS, 'wall_s': round(wall.time() - t0, 2), 'violations': len(violations),
    }
    if not os.environ.get('VERIF_NO_EVIDENCE'):
        json.dump(evidence, open(os.path.join(VERIF, 'evidence', PROPERTY + '.json'), 'w'), indent=1, default=str)
    print('%s %s: waitq states=%d transitions=%d; executions=%d comparisons=%d violations=%d wall=%.1fs' % (
        PROPERTY, tier, states, transitions, execs, compared, len(violations), wall.time() - t0))
    return status


def replay(case, faults):
    """re-run the one program under the two configurations / policies in fresh processes and compare"""
    if case['part'] == 'waitq':
        return waitq_search(12)[0]
    if case['part'] == 'monitor':
        from .. import run as vrun
        return ['turn-order monitor: ' + m for m in digests_of(case['program'])[4]]
    if case['part'] == 'config' and case.get('shard'):
        # address-dependent: reproduce by running the very same shard of the corpus in the same two configurations
        # (a difference that follows object addresses need not show in every pair of processes - that IS the defect; the very
        # same shard is therefore run three times per configuration, all started at once: on a tree whose behaviour is a
        # function of the program all six digests are equal)
        lo, n, step = case['shard']
        digs = []
        for attempt in range(4):        # (up to four rounds of six processes; the first difference ends it)
            procs = [(name, spawn(case.get('tier', 'quick'), 'config', CONFIGS[name], {}, lo, n, step))
                     for name in case['configs'] for _ in range(3)]
            for name, p in procs:
                out, err = p.communicate()
                if p.returncode != 0:
                    return ['replay worker failed: ' + err[-300:]]
                digs.append((name, json.loads(out)[str(case['index'])][0]))
            if len({d for _, d in digs}) > 1:
                return ['the digests of corpus program %d differ between runs of the same shard: %r' % (case['index'], sorted(set(digs)))]
        return []
    import tempfile
    with tempfile.NamedTemporaryFile('w', suffix='.json', delete=False, dir='/var/tmp') as fh:
        json.dump(case['program'], fh)
        path = fh.name
    try:
        digs = []
        for name in case['configs']:
            if case['part'] == 'config':
                cfg, extra = CONFIGS[name], {}
            else:
                cfg, extra = {}, {'VK_SET_POLICY': name}
            p = spawn('quick', 'file:' + path, cfg, extra, 0, 1, 1)
            out, err = p.communicate()
            if p.returncode != 0:
                return ['replay worker failed: ' + err[-300:]]
            digs.append(json.loads(out)['0'])
        if digs[0][0] != digs[1][0]:
            return ['digests differ between %s and %s: %s vs %s' % (case['configs'][0], case['configs'][1], digs[0][0], digs[1][0])]
        return []
    finally:
        os.unlink(path)
