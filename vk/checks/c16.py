"""C16 - collect()/first() give the right results at the right time and abort the rest."""
import itertools
from usim import Concurrent
from usim._primitives.context import CancelScope
from usim._primitives.task import CancelTask
from usim import TaskCancelled, TaskClosed
from ..run import run_one
from ..oracles import kernel_health, describe
from .. import faults as F
from .c04 import ST_op

PROPERTY = 'C16'
LEVEL = 'fault_enumeration'
RULE = ('collect(*activities) and first(*activities, count=k) for every assignment of durations {0,1,2} (ties, zero), results and <= 2 '
        'failures to <= 3 (quick) / 4 (thorough) activities (also an activity that itself collects two slow ones, activities pausing '
        'in delay(), contending for one lock, waiting for a nested condition), every count in '
        '{0..n+1, None, default}, consumers {eager, sleeps 1 after each item, breaks after the first}; fault-free and with the calling '
        'activity cancelled at every activation boundary. Oracle: sort-by-completion model on the observed completion order, result '
        'times, failure content, and no record of any aborted activity afterwards; non-trivial = durations tie, an activity fails, '
        'fewer results are requested than activities exist, or the caller is cancelled while activities run')
ASSUMPTIONS = [
    'ties between activities finishing in the same time step are resolved by the observed order of their completion records',
    'known finding C16/first-failure-during-consumer-body: a contestant failing while the consumer is inside its loop body '
    'surfaces as the raw internal scope signal in the consumer instead of Concurrent',
]


def act_script(name, d, outcome):
    s = [['D', d]] if d else []
    if outcome == 'ok':
        return s + [['RETURN', name]]
    if outcome == 'fail':
        return s + [['RAISE', 'KeyError', name]]
    if outcome == 'tick':
        # an activity that pauses in usim.delay(): it is suspended by a plain timed suspension, not by a notification
        return [['DELAYLOOP', 1, max(d, 1), [[] for _ in range(max(d, 1))]], ['RETURN', name]]
    if outcome == 'lock':
        # activities that contend for one lock (an aborted activity may be its holder or its designated next owner)
        return [['LOCK', 'l', [['D', d]]], ['RETURN', name]]
    if outcome == 'cond':
        # an activity that waits for a nested condition of mixed connectives; the helper raises the flag at time d
        return [['WAIT', ['OR', ['AND', ['GE', 0], ['F', 'A']], ['GE', 9]]], ['RETURN', name]]
    if outcome == 'date':
        # waits for an absolute date (start + d; with a negative start time this can be the date 0)
        return [['GE', d], ['RETURN', name]]
    if outcome in ('hop1', 'hop2'):
        # becomes available in the same time step as a plain delay of d, but one or two turns of the loop later
        return s + [['INSTANT']] * int(outcome[3]) + [['RETURN', name]]
    if outcome == 'failpriv':
        # fails with a proper subclass of a privileged exception type: raised unwrapped
        return s + [['RAISE', 'Mismatch', name]]
    if outcome == 'fin':
        # owns a scope with a child whose cleanup tries to spawn into that scope while it is being closed
        return [['SCOPE', 'z' + name, [['DO', name + 'x', [['FINALLY', [['D', 9]], [['TRY', [['DO', name + 'y', [['D', 2], ['PROBE', 'now']],
                                                                                                   {'scope': 'z' + name}]]]]]], {'volatile': True}],
                                       ['D', d]]], ['RETURN', name]]
    if outcome == 'failtc':
        # fails with the TaskCancelled it receives from awaiting a task that was cancelled (a failure the scope does not report)
        return [['SCOPE', 'z' + name, [['DO', name + 'x', [['D', 7]]], ['CANCEL', name + 'x', 'tc'], ['D', d], ['AWAIT', name + 'x']]],
                ['RETURN', name]]
    if outcome == 'nest':
        return s + [['COLLECT', [name + 'x', name + 'y'], [[['D', 3], ['RETURN', 1]], [['D', 3], ['PROBE', 'now'], ['RETURN', 2]]]], ['RETURN', name]]
    raise ValueError(outcome)


def program(kind, acts, count=None, consumer='eager', until_now=False, start=0):
    names = ['k%d' % (i + 1) for i in range(len(acts))]
    scripts = [act_script(n, d, o) for n, (d, o) in zip(names, acts)]
    if kind == 'collect':
        op = ['COLLECT', names, scripts]
    else:
        bodies = {'eager': [], 'slow': [[['D', 1]]] * 5, 'break1': []}[consumer]
        op = ['FIRST', names, scripts, count, bodies] + ([1] if consumer == 'break1' else [])
    # (the trailing postponement lets a cancel race with the caller's normal completion)
    caller = [['TRY', [op]], ['PROBE', 'now'], ['D', 4], ['PROBE', 'now'], ['INSTANT']]
    if until_now:
        # the caller is interrupted by a date that is due at the very moment the block is entered
        caller = [['UNTIL', 'now', ['EQ', 0], [op, ['PROBE', 'now']]], ['PROBE', 'now'], ['D', 4], ['PROBE', 'now'], ['INSTANT']]
    kids = [['DO', 'caller', caller]]
    conds = sorted({d for d, o in acts if o == 'cond'})
    if conds:
        kids.insert(0, ['DO', 'h', [['D', conds[0]], ['SET', 'A', True]]])
    tail = [['LOCK', 'l', []]] if any(o == 'lock' for _, o in acts) else []       # the lock must be free afterwards
    return {'_nops': 60, 'objs': {'l': 'Lock', 'A': 'Flag'}, 'start': start,
            '_meta': {'kind': kind, 'acts': [list(a) for a in acts], 'count': count, 'consumer': consumer, 'until_now': until_now},
            'roots': [['root', [['SCOPE', 'm', kids]] + tail + [['PROBE', 'now']]]]}


def BOUNDS(tier):
    return {'quick': {'activities': 3}, 'thorough': {'activities': 4}}[tier]


def cases(tier):
    out = []
    nmax = 3 if tier == 'quick' else 4
    opts = [(d, o) for d in (0, 1, 2) for o in ('ok', 'fail')] + [(0, 'nest'), (1, 'nest'), (2, 'tick')]
    for n in range(0, nmax + 1):
        for acts in itertools.product(opts if n <= 3 else opts[:6], repeat=n):
            if sum(1 for a in acts if a[1] == 'fail') > 2 or sum(1 for a in acts if a[1] == 'nest') > 1:
                continue
            out.append(program('collect', acts))
            counts = list(range(0, n + 2)) + [None, 'default']
            for count in counts:
                for consumer in ('eager', 'slow', 'break1'):
                    if n == nmax and n >= 3 and consumer != 'eager' and count not in (1, 2, None):
                        continue
                    if n >= 3 and sum(1 for a in acts if a[1] != 'ok') > 1 and consumer != 'eager':
                        continue
                    out.append(program('first', acts, count, consumer))
    # activities that use other primitives: a shared lock, a nested condition
    special = [(1, 'lock'), (2, 'lock'), (2, 'cond'), (1, 'ok'), (1, 'fail')]
    for n in (2, 3):
        for acts in itertools.product(special, repeat=n):
            if not any(o in ('lock', 'cond') for _, o in acts) or sum(1 for a in acts if a[1] == 'fail') > 1:
                continue
            out.append(program('collect', acts))
            for count in list(range(0, n + 1)) + [None]:
                for consumer in ('eager', 'slow', 'break1'):
                    if any(o == 'fail' for _, o in acts) and consumer == 'slow':
                        continue        # (the shape of known finding C16/first-failure-during-consumer-body)
                    out.append(program('first', acts, count, consumer))
    # absolute dates from a negative start time; privileged failures of a subclass type; activities with a scope whose child
    # spawns from its cleanup
    more = [(2, 'date'), (1, 'date'), (1, 'failpriv'), (1, 'fin'), (2, 'fin'), (1, 'ok'), (2, 'ok')]
    for n in (1, 2, 3):
        for acts in itertools.product(more, repeat=n):
            if not any(o in ('date', 'failpriv', 'fin') for _, o in acts) or sum(1 for a in acts if a[1] == 'failpriv') > 1:
                continue
            if n == 3 and len({o for _, o in acts} & {'date', 'failpriv', 'fin'}) > 1:
                continue
            st = -2 if any(o == 'date' for _, o in acts) else 0
            out.append(program('collect', acts, start=st))
            for count in list(range(0, n + 1)) + [None]:
                for consumer in ('eager', 'break1'):
                    out.append(program('first', acts, count, consumer, start=st))
    # an activity that fails with a TaskCancelled of a task it awaited
    tc = [(1, 'failtc'), (0, 'failtc'), (1, 'ok'), (2, 'ok'), (3, 'ok'), (1, 'fail'), (2, 'fail')]
    for n in (1, 2, 3):
        for acts in itertools.product(tc, repeat=n):
            if sum(1 for a in acts if a[1] == 'failtc') != 1 or sum(1 for a in acts if a[1] == 'fail') > 1:
                continue
            out.append(program('collect', acts))
            for count in list(range(0, n + 1)) + [None]:
                for consumer in ('eager', 'break1'):
                    out.append(program('first', acts, count, consumer))
    # ties in virtual time between different kinds of waits: a delay, an absolute date, a delay followed by one or two more turns
    # (an activity that becomes available in the very time step in which the consumer got its last result / came back for more)
    hop = [(1, 'ok'), (1, 'hop1'), (1, 'hop2'), (1, 'date'), (0, 'ok'), (0, 'hop1'), (2, 'ok')]
    for n in (2, 3):
        for acts in itertools.product(hop, repeat=n):
            if not any(o in ('hop1', 'hop2', 'date') for _, o in acts):
                continue
            if n == 3 and (acts[0][1] != 'ok' or sum(1 for a in acts if a[1] in ('hop1', 'hop2', 'date')) > 2):
                continue
            out.append(program('collect', acts))
            for count in list(range(0, n + 1)) + [None]:
                for consumer in ('eager', 'break1') + (('slow',) if n == 2 else ()):
                    out.append(program('first', acts, count, consumer))
    for acts in itertools.product([(1, 'ok'), (2, 'ok'), (2, 'tick')], repeat=2):
        out.append(program('collect', acts, until_now=True))
        out.append(program('first', acts, 2, 'eager', until_now=True))
    return out


def judge(ctx, program, hit_caller=False):
    msgs = []
    log = ctx.log
    meta = program['_meta']
    acts = meta['acts']
    names = ['k%d' % (i + 1) for i in range(len(acts))]
    key = next(((r[1], r[2]) for r in log if r[0] == 'start' and r[4] in ('COLLECT', 'FIRST') and r[1] == 'caller'), None)
    if key is None:
        return msgs + kernel_health(ctx), False, 'not-called'
    s_idx = next(i for i, r in enumerate(log) if r[0] == 'start' and (r[1], r[2]) == key)
    t0 = log[s_idx][3]
    fin = next(((i, r[0], r[3], r[4]) for i, r in enumerate(log) if i > s_idx and r[0] in ('end', 'exc') and (r[1], r[2]) == key), None)
    finish = [(i, r[1], r[3]) for i, r in enumerate(log) if r[0] == 'finish' and r[1] in names]
    failed = [(i, r[1], r[3], r[4]) for i, r in enumerate(log) if r[0] == 'abort' and r[1] in names
              and not isinstance(r[4], (GeneratorExit, CancelTask))]
    cancelled_caller = fin is not None and fin[1] == 'exc' and isinstance(fin[3], (CancelTask, GeneratorExit))
    if meta.get('until_now'):
        # the notification holds on entry: the call is abandoned at its first suspension point, within that time step
        if fin is None or fin[1] != 'exc' or not isinstance(fin[3], CancelScope) or fin[2] != t0:
            msgs.append('until(time == now) did not interrupt the caller of %s at %r: %r' % (meta['kind'], t0, fin and fin[1:3]))
        cancelled_caller = True
    descendants = set(names) | {n + 'x' for n in names} | {n + 'y' for n in names}
    t0_rel = t0
    L = fin[0] if fin else None
    # nothing of the activities runs after the operation ended
    if L is not None:
        for i in range(L + 1, len(log)):
            if log[i][1] in descendants and log[i][0] != 'inject':
                msgs.append('%s of %s ran at %r after %s had ended at %r' % (log[i][0], log[i][1], log[i][3], meta['kind'], log[L][3]))
                break
    n = len(acts)
    nontrivial = any(a[1] != 'ok' for a in acts) or len({a[0] for a in acts}) < n or cancelled_caller
    if cancelled_caller:
        return msgs + kernel_health(ctx), True, 'caller-cancelled'
    if meta['kind'] == 'collect':
        begins = [r[1] for r in log if r[0] == 'begin' and r[1] in names]
        if begins != names[:len(begins)] or any(r[3] != t0 for r in log if r[0] == 'begin' and r[1] in names):
            msgs.append('collect started its activities as %r (times %r), expected %r at %r' % (
                begins, [r[3] for r in log if r[0] == 'begin' and r[1] in names], names, t0))
        priv = next((x for i_, _, t, x in failed if isinstance(x, AssertionError)), None)
        if failed and priv is not None:
            if fin is None or fin[1] != 'exc' or fin[3] is not priv or fin[2] != failed[0][2]:
                msgs.append('an activity failed with the privileged %r at %r but collect ended with %r' % (priv, failed[0][2], fin and fin[1:]))
        elif failed and isinstance(failed[0][3], TaskCancelled):
            # the first failure is a cancellation that the activity received from a task it awaited: the others are aborted
            # at that time and the failure is raised (as itself or inside a Concurrent)
            t_fail, x = failed[0][2], failed[0][3]
            # (which object is raised is not judged: collect awaits its tasks in argument order and may meet the TaskClosed
            # of an aborted sibling before the failed activity)
            if fin is None or fin[1] != 'exc' or not (fin[3] is x or isinstance(fin[3], (Concurrent, TaskCancelled, TaskClosed))):
                msgs.append('an activity failed at %r with %r but collect ended with %r' % (t_fail, x, fin and fin[1:]))
            elif fin[2] != t_fail:
                msgs.append('first failure at %r but collect raised at %r' % (t_fail, fin[2]))
        elif failed:
            t_fail = failed[0][2]
            # (a Concurrent never contains cancellations: the TaskCancelled of an awaited task is not listed)
            F_ = [x for i_, _, t, x in failed if (L is None or i_ < L) and not isinstance(x, (TaskCancelled, TaskClosed))]
            if fin is None or fin[1] != 'exc' or not isinstance(fin[3], Concurrent):
                msgs.append('an activity failed at %r but collect ended with %r' % (t_fail, fin and fin[1:]))
            else:
                ch = list(fin[3].children)
                if len(ch) != len(F_) or any(a is not b for a, b in zip(ch, F_)):
                    msgs.append('collect raised Concurrent%r, expected exactly the failures %r' % ([describe(c) for c in ch], [describe(x) for x in F_]))
                if fin[2] != t_fail:
                    msgs.append('first failure at %r but collect raised at %r' % (t_fail, fin[2]))
        else:
            dur, held = [], 0
            for d, o in acts:
                if o == 'lock':
                    held += d           # the lock is handed over in the order in which the activities asked for it
                    dur.append(held)
                else:
                    dur.append(max(d, 1) if o == 'tick' else d + (3 if o == 'nest' else 0))      # ('date', 'fin': d)
            t_end = t0 + (max(dur) if dur else 0)
            if fin is None or fin[1] != 'end' or fin[3] != names or fin[2] != t_end:
                msgs.append('collect should return %r at %r, got %r' % (names, t_end, fin and fin[1:]))
        return msgs + kernel_health(ctx), nontrivial, 'collect-' + ('fail' if failed else 'ok')
    # first()
    count = meta['count']
    k = 1 if count == 'default' else (n if count is None else count)
    if k > n:
        if fin is None or fin[1] != 'exc' or not isinstance(fin[3], ValueError) or fin[2] != t0:
            msgs.append('first(count=%r) of %d activities should raise ValueError at once, got %r' % (count, n, fin and fin[1:]))
        if any(r[0] == 'begin' and r[1] in names for r in log):
            msgs.append('first(count > n) started an activity')
        return msgs + kernel_health(ctx), True, 'first-valueerror'
    items = [(i, r[3], r[4]) for i, r in enumerate(log) if r[0] == 'first-item' and (r[1], r[2]) == key]
    order = [nm for _, nm, _ in finish]                       # observed completion order
    ftime = {nm: t for _, nm, t in finish}
    limit = 1 if meta['consumer'] == 'break1' else k
    body = 1 if meta['consumer'] == 'slow' else 0
    got = [v for _, _, v in items]
    # items must be the earliest finishers in completion order
    if got != order[:len(got)]:
        msgs.append('first yielded %r but the activities completed in the order %r' % (got, order))
    if len(got) > min(k, limit):
        msgs.append('first yielded %d results, at most %d were requested' % (len(got), min(k, limit)))
    ready = t0
    for (i, t, v) in items:
        want = max(ready, ftime.get(v, t))
        if t != want:
            msgs.append('first yielded %r at %r, expected at %r (completed at %r, consumer ready at %r)' % (v, t, want, ftime.get(v), ready))
            break
        ready = t + body
    nontrivial = nontrivial or k < n
    # (a contestant that ends with the TaskCancelled of a task it awaited ends the race early; the statement does not say how
    # first() reports that, so only times, order, containment and kernel health are judged for it)
    failed_all, failed = failed, [f for f in failed if not isinstance(f[3], TaskCancelled)]
    priv = next((x for i_, _, t, x in failed if isinstance(x, AssertionError)), None)
    if failed and priv is not None and (fin is None or fin[1] == 'exc'):
        if fin is None or fin[3] is not priv:
            msgs.append('a contestant failed with the privileged %r but first ended with %r' % (priv, fin and (fin[1], describe(fin[3]))))
    elif failed and (fin is None or fin[1] == 'exc'):
        # a failure before the requested results were out: Concurrent with the failure, at that time
        t_fail = failed[0][2]
        if fin is None or not isinstance(fin[3], Concurrent) or not any(c is failed[0][3] for c in fin[3].children):
            msgs.append('a contestant failed at %r but first ended with %r' % (t_fail, fin and (fin[1], describe(fin[3]))))
        elif fin[2] != t_fail:
            msgs.append('a contestant failed at %r but first raised at %r' % (t_fail, fin[2]))
    elif fin is not None and fin[1] == 'end':
        need = min(k, limit)
        nfail_before = [f for f in failed_all if f[0] < fin[0]]
        if len(got) < need and not nfail_before:
            msgs.append('first ended normally after %d of %d requested results' % (len(got), need))
        if [f for f in nfail_before if not isinstance(f[3], TaskCancelled)] and meta['consumer'] != 'break1' and len(got) < need:
            msgs.append('a contestant failed but first ended normally with %r' % (got,))
    elif fin is None:
        msgs.append('first never ended')
    elif fin[1] == 'exc' and not failed_all and not hit_caller and not meta.get('until_now'):
        # nobody failed and nobody interfered: the iteration has to end regularly
        msgs.append('no contestant failed but first ended with %s' % (describe(fin[3]),))
    return msgs + kernel_health(ctx), nontrivial, 'first-' + ('fail' if failed else 'ok')


def check_exec(program, faults=()):
    ctx = run_one(program, faults)
    msgs, nontrivial, key = judge(ctx, program)
    if ctx.outcome is not None:
        msgs.append('run() raised %r' % (ctx.outcome,))
    lockers = any(o == 'lock' for _, o in program['_meta']['acts'])
    if (not faults or lockers) and not any(r[0] == 'finish' and r[1] == 'root' for r in ctx.log):
        msgs.append('the root never finished' + (' (it takes the lock that the activities used)' if lockers else ''))
    return ctx, msgs, nontrivial, key


def explore_case(program, tier):
    rep = {'execs': 0, 'nontrivial': 0, 'outcomes': {}, 'viol': [], 'counters': {}}

    def one(faults, label):
        ctx, msgs, nontrivial, key = check_exec(program, faults)
        rep['execs'] += 1
        rep['nontrivial'] += int(bool(nontrivial))
        k = '%s/%s' % (label, key)
        rep['outcomes'][k] = rep['outcomes'].get(k, 0) + 1
        if msgs:
            rep['viol'].append({'faults': faults, 'msgs': msgs})

    bounds = []
    ctx0 = run_one(program, (), observe=F.observer(bounds))
    one([], 'plain')
    if rep['viol']:
        return rep
    pts, skipped = F.cancel_points(ctx0, bounds, victims=['caller'])
    for k, v in pts:
        one([{'k': k, 'kind': 'cancel', 'victim': v, 'token': 'x'}], 'cancel')
    return rep


def replay(case, faults):
    return check_exec(case, faults)[1]


def first_failure_during_body(case, faults, msgs):
    """known finding: first() with a consumer that suspends in its loop body and a failing contestant"""
    meta = case['_meta']
    if meta['kind'] != 'first' or meta['consumer'] != 'slow' or not any(a[1] == 'fail' for a in meta['acts']):
        return False
    allowed = ('observed the signal of a scope that is not open', 'a contestant failed', 'first never ended',
               'first ended normally', "'Concurrent' may only be specialised by Exception subclasses",
               'run() raised AssertionError', 'the root never finished')
    return all(any(a in m for a in allowed) for m in msgs)


MATCHERS = {'first_failure_during_body': first_failure_during_body}
