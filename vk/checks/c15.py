"""C15 - run() ends at quiescence, reports failures and keeps simulations isolated."""
import contextlib
import itertools
import threading
import usim
from usim import time, eternity, Scope, instant
from usim._core.loop import ActivityLeak
from usim._core import handler as usim_handler
from .. import kernel

PROPERTY = 'C15'
LEVEL = 'model_checking'
STATES_FROM_COUNTERS = ('schedules', 'scheduling_points')     # complete schedules explored / scheduling decisions taken
RULE = ('(a) every sequence of <= 3 (quick) / 4 (thorough) runs on one thread over 20 kinds {ok, root raises (4 exception types), root returns a truthy / '
        'falsy value, activities blocked for ever, till (one / several survivors, till 0, till = start, activities parked in tickers / start delays / at the end of their own scope, till before start), a child cancelled in the time step in which it finishes, nested run that succeeds / fails / leaks}, each with its own start time; '
        '(b) every interleaving of 2 (preemption bound 3 quick / 5 thorough) and 3 (preemption bound 1 quick / 2 thorough) OS threads '
        'that each run a small simulation (thorough: 2 threads with <= 5 preemptions), under a controlled scheduler with scheduling points after every activation and around the '
        'assignment of the thread\'s current loop. Oracle: time.now raises outside of run() in every thread; roots start at `start` '
        'in argument order; the first escaping exception is re-raised by identity; a returned value gives ActivityLeak; run returns '
        'only when all unfinished activities are blocked for ever; an outer simulation is unchanged by a nested run; every thread\'s '
        'log equals its sequential log. non-trivial = sequences of >= 2 runs, and schedules with >= 1 preemption')
ASSUMPTIONS = [
    'thread switches are modelled at activation boundaries and at entry/exit of StateHandler.assign; torn updates inside one '
    'C-level threading.local operation are outside this model',
    'simulations per thread have 3-5 activations',
]


def outside():
    """True iff this thread sees no simulation"""
    try:
        usim.time.now
    except RuntimeError:
        return True
    return False


class Boom(Exception):
    pass


# ---- (a) run histories --------------------------------------------------------------------------------
KINDS = ('ok', 'raise', 'raise-IndexError', 'raise-KeyError', 'raise-StopIteration', 'return7', 'return0', 'returnFalse', 'blocked',
         'till', 'till0', 'till3', 'tillnow', 'till-parked', 'till-scope', 'till-past', 'cancel-tie', 'nested-ok', 'nested-raise', 'nested-leak',
         'cleanup-blocked', 'cleanup-raise', 'ctx-thread', 'handback', 'handback-till', 'inf-raise', 'inf-return', 'inf-scope')


def do_run(kind, start, log):
    """performs one usim.run of the given kind; returns a list of messages"""
    msgs = []
    marks = []

    async def a(name, d, then=None):
        marks.append((name, 'start', time.now))
        await (time + d)
        marks.append((name, 'end', time.now))
        if then is not None:
            return then()

    def check_order(names):
        starts = [m for m in marks if m[1] == 'start']
        if [m[0] for m in starts[:len(names)]] != names or any(m[2] != start for m in starts[:len(names)]):
            msgs.append('%s: roots started as %r, expected %r at %r' % (kind, starts, names, start))

    if kind == 'ok':
        usim.run(a('a', 1), a('b', 2), start=start)
        check_order(['a', 'b'])
        if marks[-1] != ('b', 'end', start + 2):
            msgs.append('ok: run returned before quiescence: %r' % (marks,))
    elif kind.startswith('raise'):
        etype = {'raise': Boom, 'raise-IndexError': IndexError, 'raise-KeyError': KeyError,
                 'raise-StopIteration': StopAsyncIteration}[kind]
        exc = etype('x')

        def fail():
            raise exc
        try:
            usim.run(a('a', 1, fail), a('b', 5), start=start)
            msgs.append('raise: run() swallowed the exception of a root activity')
        except BaseException as e:
            if e is not exc:
                msgs.append('%s: run() raised %r instead of the very exception of the root activity' % (kind, e))
        check_order(['a', 'b'])
    elif kind.startswith('return'):
        value = {'return7': 7, 'return0': 0, 'returnFalse': False}[kind]
        try:
            usim.run(a('a', 1, lambda: value), start=start)
            msgs.append('%s: the unreceived return value %r of a root activity was not reported' % (kind, value))
        except ActivityLeak as e:
            if e.result is not value and e.result != value:
                msgs.append('%s: ActivityLeak reports %r' % (kind, e.result))
        except BaseException as e:
            msgs.append('%s: run() raised %r' % (kind, e))
    elif kind == 'blocked':
        async def forever(name):
            marks.append((name, 'start', time.now))
            await eternity
            marks.append((name, 'end', time.now))

        async def past(name):
            marks.append((name, 'start', time.now))
            await (time + 1)
            await (time == start)         # the date has passed: never
            marks.append((name, 'end', time.now))
        usim.run(forever('f'), past('p'), a('c', 2), start=start)
        if ('c', 'end', start + 2) not in marks or any(m[0] in 'fp' and m[1] == 'end' for m in marks):
            msgs.append('blocked: %r' % (marks,))
    elif kind == 'till':
        usim.run(a('a', 3), a('b', 1), start=start, till=start + 2)
        if ('b', 'end', start + 1) not in marks or any(m[0] == 'a' and m[1] == 'end' for m in marks):
            msgs.append('till: %r' % (marks,))
    elif kind == 'till0':
        # a deadline of zero is a deadline
        usim.run(a('a', 3), a('b', 1), start=-2, till=0)
        if ('b', 'end', -1) not in marks or any(m[0] == 'a' and m[1] == 'end' for m in marks):
            msgs.append('till0: %r' % (marks,))
    elif kind == 'till3':
        # several root activities are still alive when the deadline arrives: all of them end there
        usim.run(a('a', 3), a('b', 4), a('c', 1), a('d', 5), a('e', 3), start=start, till=start + 2)
        if ('c', 'end', start + 1) not in marks or any(m[0] != 'c' and m[1] == 'end' for m in marks):
            msgs.append('till3: %r' % (marks,))
    elif kind == 'tillnow':
        # a deadline equal to the start time is reached at once: nothing happens at a later time
        usim.run(a('a', 2), a('b', 0), a('c', 1), start=start, till=start)
        if any(m[2] != start for m in marks):
            msgs.append('tillnow: %r' % (marks,))
    elif kind == 'till-parked':
        # activities that are parked in a ticker / wait for their start date when the deadline closes them: run returns
        # at the deadline, nothing of them is left behind
        async def ticker(name, it):
            marks.append((name, 'start', time.now))
            async for now in it:
                marks.append((name, 'tick', now))
                if len(marks) > 200:
                    raise RuntimeError('runaway: %s is still ticking at %r' % (name, now))      # (run() did not stop at till)

        async def launcher(name):
            marks.append((name, 'start', time.now))
            async with Scope() as scope:
                scope.do(a(name + '-late', 1), after=5)
                scope.do(a(name + '-at', 1), at=start + 4)
                await eternity
        usim.run(ticker('i', usim.interval(3)), ticker('d', usim.delay(5)), launcher('l'), a('c', 1), start=start, till=start + 2)
        if ('c', 'end', start + 1) not in marks or any(m[2] > start + 2 for m in marks) or len(marks) != 5:
            msgs.append('till-parked: %r' % (marks,))
    elif kind == 'till-scope':
        # a root activity that waits at the end of its own scope for its children when the deadline arrives
        async def parent(name):
            marks.append((name, 'start', time.now))
            async with Scope() as scope:
                scope.do(a(name + '1', 5))
                scope.do(a(name + '2', 3))
            marks.append((name, 'end', time.now))
        usim.run(parent('p'), parent('q'), a('c', 1), start=start, till=start + 2)
        if ('c', 'end', start + 1) not in marks or any(m[1] == 'end' and m[0] != 'c' for m in marks) or any(m[2] > start + 2 for m in marks):
            msgs.append('till-scope: %r' % (marks,))
    elif kind == 'till-past':
        # a deadline that lies before the start time is never reached: the run ends at quiescence
        usim.run(a('a', 1), a('b', 2), start=start, till=start - 5)
        check_order(['a', 'b'])
        if marks[-1:] != [('b', 'end', start + 2)]:
            msgs.append('till-past: %r' % (marks,))
    elif kind in ('inf-raise', 'inf-return', 'inf-scope'):
        # an activity that waits out an infinite delay can still make progress: the clock reaches infinity, it resumes there, and
        # what it does then (a failure, an unreceived value, ending its scope) is part of the run
        inf = float('inf')
        exc = Boom('late')

        def fail():
            raise exc
        try:
            if kind == 'inf-scope':
                async def owner():
                    async with usim.Scope() as scope:
                        scope.do(a('c', inf))
                    marks.append(('owner', 'end', time.now))
                usim.run(owner(), a('b', 2), start=start)
                if ('c', 'end', inf) not in marks or ('owner', 'end', inf) not in marks:
                    msgs.append('inf-scope: run() returned although activities could still make progress: %r' % (marks,))
            else:
                usim.run(a('a', inf, fail if kind == 'inf-raise' else (lambda: 7)), a('b', 2), start=start)
                msgs.append('%s: run() returned normally although the root that waited for an infinite delay %s (%r)' % (
                    kind, 'failed' if kind == 'inf-raise' else 'returned a value', marks))
        except ActivityLeak as e:
            if kind != 'inf-return' or e.result != 7:
                msgs.append('%s: run() raised %r' % (kind, e))
        except BaseException as e:
            if kind != 'inf-raise' or e is not exc:
                msgs.append('%s: run() raised %r' % (kind, e))
    elif kind == 'cancel-tie':
        # a child is cancelled in the very time step in which it then finishes by itself (the canceller wakes first):
        # nothing of that may end the run
        async def parent(name, fail):
            marks.append((name, 'start', time.now))
            try:
                async with Scope() as scope:
                    task = scope.do(a(name + '1', 1, (lambda: 1 / 0) if fail else None))
                    await (time + 1)
                    task.cancel()
                    await (time + 2)
            except usim.Concurrent:
                marks.append((name, 'caught', time.now))
            marks.append((name, 'end', time.now))
        usim.run(parent('p', False), parent('q', True), a('c', 4), start=start)
        if ('p', 'end', start + 3) not in marks or ('q', 'end', start + 1) not in marks or marks[-1] != ('c', 'end', start + 4):
            msgs.append('cancel-tie: %r' % (marks,))
    elif kind in ('cleanup-blocked', 'cleanup-raise'):
        # other roots are still suspended - inside code whose cleanup touches the simulation - when run() ends
        exc = Boom('x')

        def fail():
            raise exc

        async def guarded(name):
            marks.append((name, 'start', time.now))
            try:
                await eternity
            finally:
                marks.append((name, 'cleanup', time.now))

        async def owner(name):
            marks.append((name, 'start', time.now))
            async with Scope() as scope:
                scope.do(a(name + '1', 1))
                await eternity
        pending = [guarded('g'), owner('w')]
        try:
            usim.run(a('a', 2, fail if kind == 'cleanup-raise' else None), *pending, start=start)
            if kind == 'cleanup-raise':
                msgs.append('cleanup-raise: run() swallowed the exception of a root activity')
        except BaseException as e:
            if kind != 'cleanup-raise' or e is not exc:
                msgs.append('%s: run() raised %r%s' % (kind, e, '' if kind != 'cleanup-raise' else ' instead of the very exception of the root activity'))
        finally:
            for c in pending:
                try:
                    c.close()
                except BaseException:       # noqa  (their cleanup runs outside any simulation now)
                    pass
        check_order(['a', 'g', 'w'])
        if ('a', 'end', start + 2) not in marks or ('w1', 'end', start + 1) not in marks:
            msgs.append('%s: %r' % (kind, marks))
    elif kind == 'ctx-thread':
        # another thread that runs its job inside a copy of this thread's context (contextvars.copy_context().run) is still
        # another thread: it sees no simulation, and a simulation it runs is its own; a context captured during the run
        # shows no simulation once run() has returned
        import contextvars
        seen, captured = [], []

        def job():
            seen.append(('outside-before', outside()))
            inner = []
            try:
                seen.append(('inner', do_run('ok', start + 700, None)))
            except BaseException as e:      # noqa
                seen.append(('inner', ['raised %r' % (e,)]))
            seen.append(('outside-after', outside()))

        async def host():
            marks.append(('host', 'start', time.now))
            await (time + 1)
            captured.append(contextvars.copy_context())
            th = threading.Thread(target=contextvars.copy_context().run, args=(job,))
            th.start()
            th.join()
            marks.append(('host', 'mid', time.now))
            await (time + 1)
            marks.append(('host', 'end', time.now))
        usim.run(host(), start=start)
        if marks != [('host', 'start', start), ('host', 'mid', start + 1), ('host', 'end', start + 2)]:
            msgs.append('ctx-thread: the hosting simulation logged %r' % (marks,))
        if seen != [('outside-before', True), ('inner', []), ('outside-after', True)]:
            msgs.append('ctx-thread: a thread running in a copy of the context of a simulating thread observed %r' % (seen,))
        if captured and not captured[0].run(outside):
            msgs.append('ctx-thread: a context captured during the run still shows a simulation after run() returned')
    elif kind in ('handback', 'handback-till'):
        # resources held by an activity that is closed forcefully as the very last step of the run are back afterwards
        res = usim.Resources(a=2)
        cap = usim.Capacities(b=3)

        async def holder(name):
            marks.append((name, 'start', time.now))
            async with res.borrow(a=1):
                async with cap.borrow(b=2):
                    await eternity

        async def root():
            async with usim.until(time + 1) as scope:
                scope.do(holder('h'))
                await eternity
        if kind == 'handback':
            usim.run(root(), start=start)
        else:
            usim.run(holder('h'), start=start, till=start + 1)
        if res.levels.a != 2 or cap.levels.b != 3:
            msgs.append('%s: after run() returned the resources read a=%r (of 2), b=%r (of 3)' % (kind, res.levels.a, cap.levels.b))
    elif kind.startswith('nested'):
        inner_kind = {'nested-ok': 'ok', 'nested-raise': 'raise', 'nested-leak': 'return0'}[kind]
        inner_msgs = []

        async def outer():
            marks.append(('o', 'start', time.now))
            await (time + 1)
            before = time.now
            inner_msgs.extend(do_run(inner_kind, start + 500, log))
            if outside():
                inner_msgs.append('%s: the outer simulation is gone after the nested run' % kind)
            elif time.now != before:
                inner_msgs.append('%s: outer clock reads %r after the nested run, %r before' % (kind, time.now, before))
            await (time + 1)
            marks.append(('o', 'end', time.now))

        async def bystander():
            await (time + 1)
            await instant
            marks.append(('y', 'mid', time.now))
            await (time + 2)
            marks.append(('y', 'end', time.now))
        usim.run(outer(), bystander(), start=start)
        msgs += inner_msgs
        want = [('o', 'start', start), ('y', 'mid', start + 1), ('o', 'end', start + 2), ('y', 'end', start + 3)]
        if marks != want:
            msgs.append('%s: outer simulation logged %r, expected %r' % (kind, marks, want))
    return msgs


def history_case(kinds):
    msgs = []
    if not outside():
        msgs.append('a simulation is visible before any run')
    for i, kind in enumerate(kinds):
        try:
            with kernel.ExecTimer():
                msgs += ['run %d: %s' % (i, m) for m in do_run(kind, 10 * (i + 1), None)]
        except BaseException as e:       # noqa
            msgs.append('run %d (%s) let %r escape' % (i, kind, e))
        if not outside():
            msgs.append('after run %d (%s) the thread still sees a simulation' % (i, kind))
            break
    return msgs


# ---- (b) controlled thread scheduler ---------------------------------------------------------------------
class Deadlock(Exception):
    pass


class Sched:
    def __init__(self, n, prefix):
        self.n = n
        self.prefix = list(prefix)
        self.sems = [threading.Semaphore(0) for _ in range(n)]
        self.done = [False] * n
        self.points = []       # (number of enabled threads, chosen index, current still enabled)
        self.current = None
        self.lock = threading.Lock()
        self.ids = {}

    def tid(self):
        return self.ids[threading.get_ident()]

    def choose(self, cur):
        enabled = [t for t in range(self.n) if not self.done[t]]
        if not enabled:
            return None
        if cur is not None and not self.done[cur]:
            order = [cur] + [t for t in enabled if t != cur]
            still = True
        else:
            order = enabled
            still = False
        step = len(self.points)
        choice = self.prefix[step] if step < len(self.prefix) else 0
        if choice >= len(order):
            raise kernel.HarnessError('schedule prefix out of range at step %d' % step)
        self.points.append((len(order), choice, still))
        return order[choice]

    def point(self, what=None):
        cur = self.tid()
        nxt = self.choose(cur)
        if nxt != cur:
            self.current = nxt
            self.sems[nxt].release()
            if not self.sems[cur].acquire(timeout=20):
                raise Deadlock('thread %d was never resumed' % cur)

    def finish(self):
        cur = self.tid()
        self.done[cur] = True
        nxt = self.choose(cur)
        if nxt is not None:
            self.current = nxt
            self.sems[nxt].release()


def thread_programs():
    """name -> function(start, log) running one simulation and logging what its activities see"""
    def p_single(start, log):
        async def a():
            log.append(('a', time.now))
            await (time + 1)
            log.append(('a', time.now))
            await instant
            log.append(('a', time.now))
        usim.run(a(), start=start)

    def p_two(start, log):
        async def a(name, d):
            log.append((name, time.now))
            await (time + d)
            log.append((name, time.now))
        usim.run(a('a', 1), a('b', 2), start=start)

    def p_scope(start, log):
        async def child():
            log.append(('c', time.now))
            await (time + 1)
            log.append(('c', time.now))

        async def a():
            async with Scope() as scope:
                scope.do(child())
                log.append(('a', time.now))
            log.append(('a', time.now))
        usim.run(a(), start=start)

    def p_fail(start, log):
        async def a():
            log.append(('a', time.now))
            await (time + 1)
            raise Boom(start)
        try:
            usim.run(a(), start=start)
        except Boom as e:
            log.append(('boom', e.args[0]))
    return {'single': p_single, 'two': p_two, 'scope': p_scope, 'fail': p_fail}


def sequential_logs(names):
    progs = thread_programs()
    out = []
    for i, n in enumerate(names):
        log = []
        progs[n](100 * (i + 1), log)
        out.append(log)
    return out


def run_schedule(names, prefix):
    progs = thread_programs()
    n = len(names)
    sched = Sched(n, prefix)
    logs = [[] for _ in range(n)]
    errors = [None] * n
    after = [None] * n

    def body(i):
        sched.ids[threading.get_ident()] = i
        sched.sems[i].acquire()
        try:
            progs[names[i]](100 * (i + 1), logs[i])
            after[i] = outside()
        except BaseException as e:       # noqa
            errors[i] = e
            try:
                after[i] = outside()
            except BaseException:
                after[i] = None
        finally:
            sched.finish()

    orig_assign = usim_handler.StateHandler.assign

    @contextlib.contextmanager
    def assign(self, loop):
        sched.point('assign-enter')
        with orig_assign(self, loop):
            sched.point('assigned')
            try:
                yield
            finally:
                sched.point('assign-leaving')
        sched.point('assign-left')

    threads = [threading.Thread(target=body, args=(i,), daemon=True) for i in range(n)]
    usim_handler.StateHandler.assign = assign
    kernel.THREAD_HOOK[0] = sched.point
    try:
        for t in threads:
            t.start()
        while len(sched.ids) < n:
            pass
        first = sched.choose(None)
        sched.current = first
        sched.sems[first].release()
        for t in threads:
            t.join(30)
            if t.is_alive():
                raise kernel.HarnessError('controlled schedule deadlocked: %r %r' % (names, prefix))
    finally:
        usim_handler.StateHandler.assign = orig_assign
        kernel.THREAD_HOOK[0] = None
    return sched.points, logs, errors, after


def explore_threads(names, bound):
    """all schedules with at most `bound` preemptions (None: unbounded); returns (msgs, number of schedules, outcomes)"""
    seq = sequential_logs(names)
    stack = [[]]
    count = 0
    npoints = 0
    nontrivial = 0
    msgs = []
    while stack:
        prefix = stack.pop()
        points, logs, errors, after = run_schedule(names, prefix)
        count += 1
        npoints += len(points)
        pre = 0
        costs = []
        for (nen, ch, still) in points:
            costs.append(pre)
            if still and ch != 0:
                pre += 1
        if pre:
            nontrivial += 1
        for i in range(len(names)):
            if errors[i] is not None:
                msgs.append('schedule %r: thread %d (%s) failed with %r' % (prefix, i, names[i], errors[i]))
            elif logs[i] != seq[i]:
                msgs.append('schedule %r: thread %d (%s) logged %r, alone it logs %r' % (prefix, i, names[i], logs[i], seq[i]))
            if after[i] is not True:
                msgs.append('schedule %r: thread %d still sees a simulation after its run()' % (prefix, i))
        if msgs:
            return msgs[:5], count, nontrivial, prefix, npoints
        for i in range(len(prefix), len(points)):
            nen, ch, still = points[i]
            for alt in range(1, nen):
                cost = costs[i] + (1 if still else 0)
                if bound is not None and cost > bound:
                    continue
                stack.append([p[1] for p in points[:i]] + [alt])
    return msgs, count, nontrivial, None, npoints


# ---- driver interface ----------------------------------------------------------------------------------------
def BOUNDS(tier):
    return {'quick': {'history_len': 3, 'threads': '2 with <= 3 preemptions'},
            'thorough': {'history_len': 4, 'threads': '2 with <= 5 preemptions, 3 with <= 2 preemptions'}}[tier]


def cases(tier):
    out = []
    n = 3 if tier == 'quick' else 4
    for k in range(1, n + 1):
        for seq in itertools.product(KINDS, repeat=k):
            if k >= 3 and not (seq[0] in ('ok', 'raise', 'return0', 'nested-raise')):
                continue
            out.append({'kind': 'history', 'runs': list(seq)})
    names = list(thread_programs())
    for a, b in itertools.product(names, names):
        out.append({'kind': 'threads', 'programs': [a, b], 'bound': 3 if tier == 'quick' else 5})
    if tier == 'thorough':
        for a, b, c in itertools.product(names[:3], names[:3], names[:3]):
            out.append({'kind': 'threads', 'programs': [a, b, c], 'bound': 2})
    else:
        out.append({'kind': 'threads', 'programs': ['single', 'two', 'fail'], 'bound': 1})
    return out


def explore_case(case, tier):
    if case['kind'] == 'history':
        msgs = history_case(case['runs'])
        return {'execs': 1, 'nontrivial': int(len(case['runs']) >= 2), 'outcomes': {'history': 1}, 'counters': {},
                'viol': [{'faults': [], 'msgs': msgs}] if msgs else [], 'states': [], 'transitions': []}
    msgs, count, nontrivial, prefix, npoints = explore_threads(case['programs'], case['bound'])
    return {'execs': count, 'nontrivial': nontrivial, 'outcomes': {'threads': count},
            'counters': {'schedules': count, 'scheduling_points': npoints},
            'viol': [{'faults': {'schedule': prefix}, 'msgs': msgs}] if msgs else []}


def replay(case, faults):
    if case['kind'] == 'history':
        return history_case(case['runs'])
    if isinstance(faults, dict) and faults.get('schedule') is not None:
        seq = sequential_logs(case['programs'])
        points, logs, errors, after = run_schedule(case['programs'], faults['schedule'])
        msgs = []
        for i in range(len(case['programs'])):
            if errors[i] is not None:
                msgs.append('thread %d failed with %r' % (i, errors[i]))
            elif logs[i] != seq[i]:
                msgs.append('thread %d logged %r, alone %r' % (i, logs[i], seq[i]))
            if after[i] is not True:
                msgs.append('thread %d still sees a simulation after run()' % i)
        return msgs
    return explore_threads(case['programs'], case['bound'])[0]
