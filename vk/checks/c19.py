"""C19 - SimPy resources keep capacity, conserve content, serve requests in policy order."""
import collections
import itertools
import usim.py as simpy
from usim.py.exceptions import Interrupt
from usim.py.resources.container import Container
from usim.py.resources.store import Store, PriorityStore, FilterStore
from usim.py.resources.resource import Resource, PriorityResource, PreemptiveResource, PriorityRequest, Preempted

PROPERTY = 'C19'
LEVEL = 'model_checking'
STATES_FROM_COUNTERS = ('states', 'transitions')
RULE = ('explicit-state search per resource type (Container cap 2/3 init 0/1 and cap 1 with fractional amounts, Store cap 1/2, PriorityStore, FilterStore with filters '
        '{any, ==1, ==2}, Resource cap 1/2, PriorityResource priorities {0,1,2}, PreemptiveResource with and without preempt): BFS over '
        'all histories of one operation per time step to depth 4 (quick) / 5 (thorough) with deduplication on the complete reference '
        'state; every transition is executed on the real resource (each operation issued by its own process) and the observed state '
        '(level / items / users / both queues / grants / preemptions) is compared with a sequential reference model; in addition, from '
        'every reachable state every ordered pair of operations is issued within ONE time step and the end-of-step invariants are '
        'checked (capacity, conservation, no grantable head left waiting, items handed out once, every user evicted by the first of the '
        'two operations is interrupted with Preempted). non-trivial = transitions in which a '
        'request had to wait, was cancelled, preempted, or two operations shared a time step')
ASSUMPTIONS = [
    'one operation per time step for exact comparison; two per time step for the invariants (the order of grants inside one time '
    'step is left to the implementation where the SimPy semantics leave it open)',
    'the reference models (strict FIFO heads, sorted items, filter scan, (priority, time, not preempt) order, eviction of the worst '
    'user for a strictly better preempting request) are the specification',
]

TYPES = {
    'container2': ('container', {'cap': 2, 'init': 0}), 'container3': ('container', {'cap': 3, 'init': 1}),
    'container1f': ('container', {'cap': 1, 'init': 0, 'amts': (0.5, 1)}),
    # (amounts that are not positive are refused with ValueError and change nothing)
    'container2neg': ('container', {'cap': 2, 'init': 1, 'amts': (1, -1)}), 'container2zero': ('container', {'cap': 2, 'init': 1, 'amts': (2, 0)}),
    'store1': ('store', {'cap': 1}), 'store2': ('store', {'cap': 2}),
    'pstore2': ('pstore', {'cap': 2}), 'fstore2': ('fstore', {'cap': 2}),
    'resource1': ('resource', {'cap': 1}), 'resource2': ('resource', {'cap': 2}),
    'presource1': ('presource', {'cap': 1}), 'presource2': ('presource', {'cap': 2}),
    'preempt1': ('preempt', {'cap': 1}), 'preempt2': ('preempt', {'cap': 2}),
}
FILTERS = {'any': lambda item: True, 'eq1': lambda item: item == 1, 'eq2': lambda item: item == 2,
           'isint': lambda item: type(item) is int}


# ---- reference models ---------------------------------------------------------------------------------
class Model:
    """sequential reference; ops are applied one by one, grants are eager and follow the stated policy"""
    def __init__(self, kind, params):
        self.kind, self.cap = kind, params['cap']
        self.level = params.get('init', 0)
        self.amts = params.get('amts', (1, 2))
        self.items = []
        self.puts, self.gets = [], []        # pending requests (dicts), in queue order
        self.users = []
        self.granted = []                    # ids in grant order
        self.got = {}                        # get id -> item
        self.preempted = []                  # (victim id, by id)
        self.preempt_since = []              # (victim id, time at which the victim had been granted the resource)
        self.n = 0
        self.t = 0
        self.rejected = []                   # ids of requests that were refused when they were made (ValueError)
        self.released = False                # has any user left the resource yet (the implementation may rebuild its containers then)

    def key(self, r):
        return (r['prio'], r['time'], not r['preempt'])

    def new(self, **kw):
        r = dict(id=self.n, time=self.t, **kw)
        self.n += 1
        return r

    # Requests are served when they are made and when a request of the other queue has been served
    # (a served put may enable gets and vice versa); a cancel only removes the request.
    def trigger_put(self):
        k = self.kind
        while self.puts:
            r = self.puts[0]
            if k == 'container':
                ok = self.cap - self.level >= r['amt']
                if ok:
                    self.level += r['amt']
            elif k in ('store', 'pstore', 'fstore'):
                ok = len(self.items) < self.cap
                if ok:
                    self.items.append(r['item'])
                    if k == 'pstore':
                        self.items.sort()
            else:
                if k == 'preempt' and len(self.users) >= self.cap and r['preempt']:
                    worst = max(self.users, key=self.key)
                    if self.key(r) < self.key(worst):
                        self.users.remove(worst)
                        self.preempted.append((worst['id'], r['id']))
                        self.preempt_since.append((worst['id'], worst['since']))
                        if worst.get('hold') == 2:
                            # the evicted process asks again from its interrupt handler
                            again = dict(id=100 + worst['id'], time=self.t, prio=worst['prio'], preempt=True, hold=1)
                            self.puts.append(again)
                            self.puts.sort(key=self.key)
                ok = len(self.users) < self.cap
                if ok:
                    self.users.append(r)
                    r['since'] = self.t
            if not ok:
                break
            self.puts.pop(0)
            self.granted.append(r['id'])
            self.pending_triggers.append('get')

    def trigger_get(self):
        k = self.kind
        if k == 'fstore':
            for r in list(self.gets):
                match = [i for i, x in enumerate(self.items) if FILTERS[r['flt']](x)]
                if match:
                    item = self.items.pop(match[0])       # the very object that was accepted, not an equal one
                    self.gets.remove(r); self.got[r['id']] = item
                    self.granted.append(r['id'])
                    self.pending_triggers.append('put')
            return
        while self.gets:
            r = self.gets[0]
            if k == 'container':
                ok = self.level >= r['amt']
                if ok:
                    self.level -= r['amt']
            else:
                ok = bool(self.items)
                if ok:
                    self.got[r['id']] = self.items.pop(0)
            if not ok:
                break
            self.gets.pop(0)
            self.granted.append(r['id'])
            self.pending_triggers.append('put')

    def drain(self):
        while self.pending_triggers:
            t = self.pending_triggers.pop(0)
            (self.trigger_put if t == 'put' else self.trigger_get)()
            # a request with a zero-length hold leaves its block as soon as it is granted
            for r in list(self.users):
                if r.get('hold') == 0:
                    self.users.remove(r)
                    self.released = True
                    self.pending_triggers.append('put')

    def apply(self, op):
        k = op[0]
        self.pending_triggers = getattr(self, 'pending_triggers', [])
        if k in ('put', 'get') and self.kind == 'container' and not op[1] > 0:
            self.rejected.append(self.n)
            self.n += 1
        elif k == 'put':
            if self.kind == 'container':
                self.puts.append(self.new(amt=op[1]))
            else:
                self.puts.append(self.new(item=op[1]))
            self.pending_triggers.append('put')
        elif k == 'get':
            if self.kind == 'container':
                self.gets.append(self.new(amt=op[1]))
            else:
                self.gets.append(self.new(flt=op[1] if len(op) > 1 else 'any'))
            self.pending_triggers.append('get')
        elif k == 'request':
            r = self.new(prio=op[1], preempt=op[2], hold=op[3])
            self.puts.append(r)
            if self.kind in ('presource', 'preempt'):
                self.puts.sort(key=self.key)
            self.pending_triggers.append('put')
        elif k == 'cancel':
            for q in (self.puts, self.gets):
                for r in list(q):
                    if r['id'] == op[1]:
                        q.remove(r)
        elif k == 'release':
            for r in list(self.users):
                if r['id'] == op[1]:
                    self.users.remove(r)
                    self.released = True
            self.pending_triggers.append('put')
        elif k == 'interrupt':
            # the process is interrupted inside its `with request:` block and leaves it with the exception:
            # a pending request is withdrawn (like cancel), a granted one is given back (like release)
            for q in (self.puts, self.gets):
                for r in list(q):
                    if r['id'] == op[1]:
                        q.remove(r)
            for r in list(self.users):
                if r['id'] == op[1]:
                    self.users.remove(r)
                    self.released = True
                    self.pending_triggers.append('put')
        self.drain()

    def tick(self):
        self.t += 1

    def state(self):
        k = self.kind
        if k == 'container':
            return ('container', self.level, tuple(r['amt'] for r in self.puts), tuple(r['amt'] for r in self.gets))
        if k in ('store', 'pstore', 'fstore'):
            return (k, tuple(self.items), tuple(r['item'] for r in self.puts), tuple(r.get('flt') for r in self.gets))
        age = {}
        # (a request issued from an interrupt handler is a different thing for the implementation: keep it apart)
        rel = lambda r: (r['prio'], r['preempt'], r['hold'], r['id'] >= 100)
        order = sorted(self.users + self.puts, key=lambda r: (r['time'], r['id']))
        rank = {r['id']: i for i, r in enumerate(order)}
        # (hidden implementation state that the reference state does not show is part of the key where it is known to exist:
        # whether the release path has run yet)
        return (k, tuple(sorted((rank[r['id']],) + rel(r) for r in self.users)), tuple((rank[r['id']],) + rel(r) for r in self.puts),
                self.released)

    def observable(self):
        k = self.kind
        if k == 'container':
            return {'level': self.level, 'puts': [r['id'] for r in self.puts], 'gets': [r['id'] for r in self.gets],
                    'granted': sorted(self.granted), 'rejected': sorted(self.rejected)}
        if k in ('store', 'pstore', 'fstore'):
            return {'items': [repr(x) for x in self.items], 'puts': [r['id'] for r in self.puts], 'gets': [r['id'] for r in self.gets],
                    'granted': sorted(self.granted), 'got': {k: repr(v) for k, v in self.got.items()}}
        return {'users': sorted(r['id'] for r in self.users), 'queue': [r['id'] for r in self.puts],
                'granted': sorted(self.granted), 'preempted': sorted(self.preempted)}

    def enabled(self, small=False):
        k = self.kind
        ops = []
        if k == 'container':
            a1, a2 = self.amts
            ops = [('put', a1), ('put', a2), ('get', a1), ('get', a2)]
        elif k == 'store':
            ops = [('put', 'x%d' % self.n), ('get',)]
        elif k == 'pstore':
            ops = [('put', 2), ('put', 1), ('put', 3), ('get',)]
        elif k == 'fstore':
            ops = [('put', 1), ('put', 1.0), ('put', 2), ('get', 'any'), ('get', 'eq1'), ('get', 'eq2'), ('get', 'isint')]
        elif k == 'resource':
            ops = [('request', 0, True, 1), ('request', 0, True, 0)]
        elif k == 'presource':
            ops = [('request', p, True, 1) for p in (0, 1, 2)] + [('request', 1, True, 0)]
        elif k == 'preempt':
            ops = [('request', p, pre, 1) for p in (0, 1, 2) for pre in (True, False)] + [('request', 1, True, 2), ('request', 2, True, 2),
                                                                                         ('request', 1, True, 0)]
        for r in self.puts + self.gets:
            ops.append(('cancel', r['id']))
        for r in self.users:
            ops.append(('release', r['id']))
        for r in self.puts + self.gets + self.users:
            ops.append(('interrupt', r['id']))
        return ops


# ---- the real thing -----------------------------------------------------------------------------------
def make(kind, env, params):
    if kind == 'container':
        return Container(env, capacity=params['cap'], init=params.get('init', 0))
    if kind == 'store':
        return Store(env, capacity=params['cap'])
    if kind == 'pstore':
        return PriorityStore(env, capacity=params['cap'])
    if kind == 'fstore':
        return FilterStore(env, capacity=params['cap'])
    if kind == 'resource':
        return Resource(env, capacity=params['cap'])
    if kind == 'presource':
        return PriorityResource(env, capacity=params['cap'])
    if kind == 'preempt':
        return PreemptiveResource(env, capacity=params['cap'])
    raise ValueError(kind)


def run_real(kind, params, steps):
    """steps: list of groups; a group is a list of ops issued in ONE time step. Returns the snapshot after every step."""
    env = simpy.Environment()
    res = make(kind, env, params)
    evs = {}            # id -> event
    release = {}        # id -> control event
    grants, got, preempted, errors, rejected = [], {}, [], [], []
    snaps = []
    counter = [0]

    def waiter(i, ev):
        try:
            with ev:
                value = yield ev
                grants.append(i)
                got[i] = value
        except Interrupt as irq:
            if irq.cause != 'leave':
                errors.append('request %d interrupted with %r' % (i, irq.cause))
            if ev.triggered and i not in grants:
                # served in the very time step in which the process was told to leave: the transfer has happened
                grants.append(i)
                got[i] = ev.value
        except BaseException as e:      # noqa
            errors.append('request %d failed with %r' % (i, e))

    def user(i, prio, preempt, hold):
        if kind == 'resource':
            req = res.request()
        elif preempt:
            req = res.request(priority=prio)
        else:
            req = PriorityRequest(res, prio, preempt=False)
        evs[i] = req
        release[i] = env.event()
        try:
            with req:
                yield req
                grants.append(i)
                if hold:
                    yield release[i]
        except Interrupt as irq:
            cause = irq.cause
            if isinstance(cause, Preempted):
                preempted.append((i, ids_of_proc.get(cause.by), cause.usage_since, cause.resource is res))
            elif cause != 'leave':
                errors.append('request %d interrupted with %r' % (i, cause))
            if hold == 2 and isinstance(cause, Preempted):
                # ask again from the interrupt handler
                j = 100 + i
                req2 = res.request(priority=prio)
                evs[j] = req2
                release[j] = env.event()
                ids_of_proc[req2.proc] = ids_of_proc.get(req2.proc, i)
                procs[j] = procs[i]
                try:
                    with req2:
                        yield req2
                        grants.append(j)
                        yield release[j]
                except Interrupt as irq2:
                    if isinstance(irq2.cause, Preempted):
                        preempted.append((j, ids_of_proc.get(irq2.cause.by), irq2.cause.usage_since, irq2.cause.resource is res))
                    elif irq2.cause != 'leave':
                        errors.append('request %d interrupted with %r' % (j, irq2.cause))

    ids_of_proc = {}
    procs = {}

    def issue(op):
        k = op[0]
        if k in ('put', 'get'):
            i = counter[0]; counter[0] += 1

            def proc():
                if kind == 'container' and not op[1] > 0:
                    try:
                        ev = res.put(op[1]) if k == 'put' else res.get(op[1])
                    except ValueError:
                        rejected.append(i)
                        return
                    evs[i] = ev
                    yield from waiter(i, ev)
                    return
                if k == 'put':
                    ev = res.put(op[1])
                elif kind == 'container':
                    ev = res.get(op[1])
                elif kind == 'fstore':
                    ev = res.get(FILTERS[op[1]])
                else:
                    ev = res.get()
                evs[i] = ev
                yield from waiter(i, ev)
            procs[i] = env.process(proc())
        elif k == 'request':
            i = counter[0]; counter[0] += 1
            p = env.process(user(i, op[1], op[2], op[3]))
            ids_of_proc[p] = i
            procs[i] = p
        elif k == 'cancel':
            def proc():
                evs[op[1]].cancel()
                return
                yield
            env.process(proc())
        elif k == 'interrupt':
            def proc():
                if procs[op[1]].is_alive:
                    procs[op[1]].interrupt('leave')
                return
                yield
            env.process(proc())
        elif k == 'release':
            def proc():
                if not release[op[1]].triggered:
                    release[op[1]].succeed()
                return
                yield
            env.process(proc())

    def snapshot():
        inv = {v: k for k, v in evs.items()}
        if kind == 'container':
            s = {'level': res.level, 'puts': [inv.get(e) for e in res.put_queue], 'gets': [inv.get(e) for e in res.get_queue]}
        elif kind in ('store', 'pstore', 'fstore'):
            s = {'items': [repr(x) for x in res.items], 'raw_items': list(res.items),
                 'puts': [inv.get(e) for e in res.put_queue], 'gets': [inv.get(e) for e in res.get_queue],
                 'got': {i: repr(got[i]) for i in got if i in evs and not hasattr(evs[i], 'item')},
                 'raw_got': {i: got[i] for i in got if i in evs and not hasattr(evs[i], 'item')}}
        else:
            s = {'users': sorted(inv.get(e) for e in res.users), 'queue': [inv.get(e) for e in res.queue],
                 'preempted': sorted((a, b) for a, b, _, _ in preempted), 'count': res.count,
                 'preempt_details': [(a, u, ok) for a, b, u, ok in preempted]}
        # hidden state of the real object: for every attribute its type and whether it is empty (a request queue that was
        # re-bound to a plain list, a cache, a flag that a release path sets) - part of the visited-state key of the search
        shape = []
        names = set(getattr(res, '__dict__', {}))
        for klass in type(res).__mro__:
            sl = klass.__dict__.get('__slots__', ())
            names |= set([sl] if isinstance(sl, str) else sl)
        for n in sorted(names):
            if n == '__weakref__' or not hasattr(res, n):
                continue
            v = getattr(res, n)
            try:
                filled = len(v) > 0
            except Exception:       # noqa
                filled = None if not isinstance(v, (bool, type(None))) else v
            shape.append((n, type(v).__name__, filled))
        s['shape'] = tuple(shape)
        s['granted'] = sorted(grants)
        s['rejected'] = sorted(rejected)
        s['triggered'] = sorted(i for i, e in evs.items() if e.triggered)
        s['errors'] = list(errors)
        return s

    def driver():
        for group in steps:
            for op in group:
                issue(op)
            yield env.timeout(1)
            snaps.append(snapshot())
    env.process(driver())
    outcome = None
    try:
        from ..kernel import ExecTimer
        with ExecTimer():
            env.run(until=len(steps) + 1.5)
    except BaseException as e:      # noqa
        outcome = e
    return snaps, outcome, evs


def invariants(kind, params, snap, cancelled=False):
    """end-of-step invariants that hold whatever the order of grants inside the step was"""
    msgs = []
    cap = params['cap']
    if snap['errors']:
        msgs += snap['errors']
    if kind == 'container':
        if not (0 <= snap['level'] <= cap):
            msgs.append('level %r outside [0, %r]' % (snap['level'], cap))
    elif kind in ('store', 'pstore', 'fstore'):
        if len(snap['items']) > cap:
            msgs.append('%d items in a store of capacity %d' % (len(snap['items']), cap))
        if snap['puts'] and len(snap['items']) < cap and not cancelled:
            msgs.append('a put is still pending although the store has room (items %r)' % (snap['items'],))
    else:
        if snap['count'] > cap:
            msgs.append('%d users of a resource of capacity %d' % (snap['count'], cap))
        if snap['queue'] and snap['count'] < cap and not cancelled:
            msgs.append('request %r is still queued although only %d of %d slots are used' % (snap['queue'][0], snap['count'], cap))
    return msgs


def amounts(steps):
    """id -> op for all issuing ops, in issue order"""
    out = {}
    n = 0
    for group in steps:
        for op in group:
            if op[0] in ('put', 'get', 'request'):
                out[n] = op
                n += 1
    return out


def conservation(kind, params, snap, steps):
    msgs = []
    ops = amounts(steps)
    cancelled = any(op[0] in ('cancel', 'interrupt') for g in steps for op in g)
    if kind == 'container':
        lvl = params.get('init', 0)
        for i in snap['granted']:
            lvl += ops[i][1] if ops[i][0] == 'put' else -ops[i][1]
        if lvl != snap['level']:
            msgs.append('level is %r but initial + granted puts - granted gets = %r' % (snap['level'], lvl))
        for q, name in ((snap['puts'], 'put'), (snap['gets'], 'get')):
            if q and q[0] is not None:
                amt = ops[q[0]][1]
                ok = (params['cap'] - snap['level'] >= amt) if name == 'put' else (snap['level'] >= amt)
                if ok and not cancelled:
                    msgs.append('head %s of %r is still pending although it is grantable (level %r)' % (name, amt, snap['level']))
    elif kind in ('store', 'pstore', 'fstore'):
        put_items = [ops[i][1] for i in snap['granted'] if ops[i][0] == 'put']
        got_items = list(snap['raw_got'].values())
        rest = collections.Counter(map(repr, put_items)) - collections.Counter(map(repr, got_items))
        if rest != collections.Counter(snap['items']) or (collections.Counter(map(repr, got_items)) - collections.Counter(map(repr, put_items))):
            msgs.append('items %r + handed out %r do not add up to the accepted puts %r' % (snap['items'], got_items, put_items))
        if kind == 'fstore':
            for g in snap['gets']:
                if g is not None and not cancelled and any(FILTERS[ops[g][1]](x) for x in snap['raw_items']):
                    msgs.append('get %r (filter %s) is pending although %r contains a matching item' % (g, ops[g][1], snap['items']))
            for g, item in snap['raw_got'].items():
                if not FILTERS[ops[g][1]](item):
                    msgs.append('get %r with filter %s received %r' % (g, ops[g][1], item))
        elif snap['gets'] and snap['items'] and not cancelled:
            msgs.append('a get is pending although the store holds %r' % (snap['items'],))
        if kind == 'pstore' and snap['raw_items'] != sorted(snap['raw_items']):
            msgs.append('priority store items are not sorted: %r' % (snap['items'],))
    return msgs


def compare(kind, model, snap):
    msgs = []
    want = model.observable()
    for key, val in want.items():
        got = snap.get(key)
        if key == 'got':
            got = {k: v for k, v in (got or {}).items()}
        if got != val:
            msgs.append('%s is %r, the reference model says %r' % (key, got, val))
    if kind == 'preempt':
        since = dict(model.preempt_since)
        for victim, usage_since, same in snap.get('preempt_details', ()):
            if not same:
                msgs.append('Preempted.resource is not the resource')
            if victim in since and usage_since != since[victim]:
                msgs.append('request %r was preempted with usage_since=%r but it had been granted the resource at %r' % (
                    victim, usage_since, since[victim]))
    return msgs


def evictions_reported(kind, params, steps, snap):
    """two operations in one time step: whatever the second one is, a user that the FIRST operation evicts (decided when
    the request is made, before the second operation exists) must be interrupted with Preempted naming that request"""
    if kind != 'preempt' or len(steps) < 2 or len(steps[-2]) != 2:
        return []
    m = Model(kind, params)
    for group in steps[:-2]:
        for op in group:
            m.apply(op)
        m.tick()
    before = set(m.preempted)
    m.apply(steps[-2][0])
    new = set(m.preempted) - before
    got = set(tuple(x) for x in snap.get('preempted', ()))
    return ['request %r evicted user %r but that process was never interrupted with Preempted' % (by, victim)
            for victim, by in sorted(new - got)]


# ---- search -------------------------------------------------------------------------------------------
def search(tname, depth, pairs, first=None, pair_depth=2):
    kind, params = TYPES[tname]
    seen = set()
    frontier = collections.deque()
    m0 = Model(kind, params)
    seen.add((m0.state(), None))
    frontier.append([])
    transitions = 0
    nontrivial = 0
    pair_runs = 0
    viol = []
    samples = []

    def replay_model(hist):
        m = Model(kind, params)
        for group in hist:
            for op in group:
                m.apply(op)
            m.tick()
        return m

    while frontier and not viol:
        hist = frontier.popleft()
        m = replay_model(hist)
        ops = m.enabled()
        if len(hist) < depth:
            for op_index, op in enumerate(ops):
                if not hist and first is not None and op_index != first:
                    continue        # this case explores the histories that begin with the `first`-th operation
                steps = hist + [[op]]
                mm = replay_model(steps)
                snaps, outcome, _ = run_real(kind, params, steps)
                transitions += 1
                msgs = []
                if outcome is not None:
                    msgs.append('env.run raised %r' % (outcome,))
                elif len(snaps) != len(steps):
                    msgs.append('the driver did not finish: %d of %d steps' % (len(snaps), len(steps)))
                else:
                    snap = snaps[-1]
                    msgs += compare(kind, mm, snap) + invariants(kind, params, snap, any(o[0] in ('cancel', 'interrupt') for g in steps for o in g)) + conservation(kind, params, snap, steps)
                if mm.puts or mm.gets or mm.preempted or op[0] in ('cancel', 'interrupt'):
                    nontrivial += 1
                if msgs:
                    viol.append({'faults': {'type': tname, 'steps': steps}, 'msgs': msgs})
                    break
                st = (mm.state(), snaps[-1].get('shape') if snaps and outcome is None and len(snaps) == len(steps) else None)
                if st not in seen:
                    seen.add(st)
                    frontier.append(steps)
                    if len(samples) < 2 and len(steps) >= 3:
                        samples.append({'type': tname, 'history': steps})
        if pairs and not viol and len(hist) <= min(depth - 1, pair_depth) and (hist or first in (None, 0)):
            # every ordered pair of operations within one time step, from this reachable state: invariants only
            issuing = [o for o in ops]
            for a, b in itertools.product(issuing, issuing):
                if a[0] in ('cancel', 'release', 'interrupt') and b[0] in ('cancel', 'release', 'interrupt') and a[1] == b[1]:
                    continue        # the same request is withdrawn twice
                steps = hist + [[a, b]] + [[]]
                snaps, outcome, _ = run_real(kind, params, steps)
                pair_runs += 1
                nontrivial += 1
                msgs = []
                if outcome is not None:
                    msgs.append('env.run raised %r' % (outcome,))
                elif len(snaps) == len(steps):
                    for snap in snaps[-2:]:
                        msgs += invariants(kind, params, snap, any(o[0] in ('cancel', 'interrupt') for g in steps for o in g)) + conservation(kind, params, snap, steps)
                    msgs += evictions_reported(kind, params, steps, snaps[-1])
                else:
                    msgs.append('the driver did not finish')
                if msgs:
                    viol.append({'faults': {'type': tname, 'steps': steps}, 'msgs': msgs})
                    break
    return {'execs': transitions + pair_runs, 'nontrivial': nontrivial, 'outcomes': {tname: transitions + pair_runs},
            'viol': viol, 'counters': {'states': len(seen), 'transitions': transitions, 'same_step_pairs': pair_runs},
            'samples': samples}


def self_preemption(cap, rival_prio):
    """one process holds a slot with a bad priority and requests the same full resource again with a strictly better one:
    it evicts its own first request and is interrupted with the Preempted details at its next yield"""
    env = simpy.Environment()
    res = PreemptiveResource(env, capacity=cap)
    log = []

    def rival(prio):
        with res.request(priority=prio) as r:
            yield r
            log.append(('rival granted', env.now))
            yield env.timeout(9)

    def greedy():
        low = res.request(priority=5)
        yield low
        yield env.timeout(2)
        high = res.request(priority=1)
        try:
            yield high
            yield env.timeout(3)
            log.append(('never told', env.now))
        except Interrupt as irq:
            c = irq.cause
            log.append(('preempted', env.now, isinstance(c, Preempted) and c.by is env.active_process and c.resource is res
                        and c.usage_since == 0))
        yield res.release(low)
        yield res.release(high)
        log.append(('count', res.count))
    if cap == 2:
        env.process(rival(rival_prio))
    env.process(greedy())
    from ..kernel import ExecTimer
    try:
        with ExecTimer():
            env.run(until=30)
    except BaseException as e:      # noqa
        return ['self-preemption (capacity %d): env.run raised %r' % (cap, e)]
    want = ([('rival granted', 0)] if cap == 2 else []) + [('preempted', 2, True), ('count', cap - 1)]
    if log != want:
        return ['self-preemption (capacity %d, rival priority %r): observed %r, expected %r' % (cap, rival_prio, log, want)]
    return []


def BOUNDS(tier):
    return {'quick': {'depth': 4, 'pairs_from_depth': '<= 3'}, 'thorough': {'depth': 5, 'pairs_from_depth': '<= 3'}}[tier]


def cases(tier):
    out = []
    for t, (kind, params) in TYPES.items():
        n = len(Model(kind, params).enabled())
        for i in range(n):
            out.append({'type': t, 'first': i})      # one case per first operation (load balance); states are deduplicated per case
    out.append({'type': 'special', 'name': 'selfpreempt'})
    # deeper than the search goes: two users, two queued requests, then a release - the queue is walked again from within the
    # release, a preempting request that was blocked behind a better non-preempting one may evict a user only now
    for i in range(len(DEEP_USERS)):
        for j in range(len(DEEP_USERS)):
            out.append({'type': 'special', 'name': 'deep', 'u1': i, 'u2': j})
    return out


DEEP_USERS = [('request', 2, True, 1), ('request', 1, True, 1), ('request', 2, False, 1)]
DEEP_QUEUED = [('request', p, pre, 1) for p in (0, 1, 2) for pre in (True, False)]


def deep_histories(i, j):
    for a in DEEP_QUEUED:
        for b in DEEP_QUEUED:
            for rel in (0, 1):
                yield [[DEEP_USERS[i]], [DEEP_USERS[j]], [a], [b], [('release', rel)]]
                yield [[DEEP_USERS[i]], [DEEP_USERS[j]], [a], [b], [('release', rel)], [('release', 1 - rel)]]


def explore_deep(case):
    viol, n = [], 0
    for tname in ('preempt2', 'presource2') if 'presource2' in TYPES else ('preempt2',):
        for steps in deep_histories(case['u1'], case['u2']):
            if TYPES[tname][0] != 'preempt':
                steps = [[(op[0], op[1], True, op[3]) if op[0] == 'request' else op for op in g] for g in steps]
            n += 1
            msgs = replay(None, {'type': tname, 'steps': steps})
            if msgs:
                viol.append({'faults': {'type': tname, 'steps': steps}, 'msgs': msgs})
                break
    return {'execs': n, 'nontrivial': n, 'outcomes': {'deep': n}, 'counters': {}, 'samples': [], 'viol': viol[:1]}


def explore_case(case, tier):
    if case['type'] == 'special' and case.get('name') == 'deep':
        return explore_deep(case)
    if case['type'] == 'special':
        msgs = self_preemption(1, None) + self_preemption(2, 0) + self_preemption(2, 3)
        return {'execs': 3, 'nontrivial': 3, 'outcomes': {'special': 3}, 'counters': {}, 'samples': [],
                'viol': [{'faults': {'type': 'special'}, 'msgs': msgs}] if msgs else []}
    depth = 4 if tier == 'quick' else 5
    r = search(case['type'], depth, True, case.get('first'), pair_depth=3)
    return r


def replay(case, faults):
    if faults.get('type') == 'special':
        return self_preemption(1, None) + self_preemption(2, 0) + self_preemption(2, 3)
    kind, params = TYPES[faults['type']]
    steps = faults['steps']
    m = Model(kind, params)
    for group in steps:
        for op in group:
            m.apply(op)
        m.tick()
    snaps, outcome, _ = run_real(kind, params, steps)
    msgs = []
    if outcome is not None:
        return ['env.run raised %r' % (outcome,)]
    single = all(len(g) == 1 for g in steps)
    if single:
        msgs += compare(kind, m, snaps[-1])
    for snap in snaps[-2:]:
        msgs += invariants(kind, params, snap, any(o[0] in ('cancel', 'interrupt') for g in steps for o in g)) + conservation(kind, params, snap, steps)
    if not single:
        msgs += evictions_reported(kind, params, steps, snaps[-1])
    return msgs
