"""Shared machinery of C04 (containment) and C05 (failure content): scope-tree programs, fault exploration."""
import itertools
from usim import Concurrent
from usim._primitives.task import CancelTask
from usim._primitives.context import CancelScope, ScopeClosed
from ..run import run_one
from ..oracles import kernel_health
from .. import faults as F

CHILD = {
    'd1': [['D', 1]],
    'd2': [['D', 2]],
    'f0': [['RAISE', 'KeyError', 'f0']],
    'f1': [['D', 1], ['RAISE', 'KeyError', 'f1']],
    'f1b': [['D', 1], ['RAISE', 'IndexError', 'f1b']],
    'f2': [['D', 2], ['RAISE', 'ValueError', 'f2']],
    'priv1': [['D', 1], ['RAISE', 'AssertionError', 'priv1']],
    # distinct exception objects that compare equal
    'fe1': [['D', 1], ['RAISE', 'EqErr', 'fe1']],
    'fe1b': [['D', 1], ['RAISE', 'EqErr', 'fe1b']],
    'fe2': [['D', 2], ['RAISE', 'EqErr', 'fe2']],
    # proper subclasses of the privileged types, directly and through a nested scope
    'priv1s': [['D', 1], ['RAISE', 'Mismatch', 'priv1s']],
    'priv1k': [['D', 1], ['RAISE', 'Abort', 'priv1k']],
    'nest_priv': [['SCOPE', 'n', [['DO', 'g1', [['D', 2]]], ['DO', 'g2', [['D', 1], ['RAISE', 'Mismatch', 'g2']]]]]],
    'nest_ok': [['SCOPE', 'n', [['DO', 'g1', [['D', 2]]], ['DO', 'g2', [['D', 1]]]]], ['INSTANT']],
    'nest_fail': [['SCOPE', 'n', [['DO', 'g1', [['D', 2], ['D', 1]]], ['DO', 'g2', [['D', 1], ['RAISE', 'ValueError', 'g2']]]]]],
    'nest_slow': [['SCOPE', 'n', [['DO', 'g1', [['D', 3]]], ['DO', 'gv', [['D', 1], ['D', 1], ['D', 1], ['D', 1]], {'volatile': True}]]]],
    'late1': [['D', 1], ['TRY', [['DO', 'late', [['D', 1], ['PROBE', 'now']], {'scope': 's0'}]]]],
    'waiter': [['AWAITSCOPE', 's0'], ['D', 1]],
    'finspawn': [['FINALLY', [['D', 3]], [['TRY', [['DO', 'fs', [['D', 1], ['PROBE', 'now']], {'scope': 's0'}]]]]]],
    'vict': [['D', 3]],
    'killer': [['D', 1], ['CANCEL', 'c1_vict', 'k']],
    'awaitv': [['AWAIT', 'c1_vict'], ['D', 1]],
    'victf': [['D', 1], ['RAISE', 'KeyError', 'vf']],
    'awaitf': [['AWAIT', 'c1_victf'], ['D', 1]],
    # (awaits the failed sibling only after it has failed, in that very time step: the await is still a break point)
    'awaitf1': [['D', 1], ['AWAIT', 'c1_victf'], ['D', 1]],
    'tick': [['D', 1], ['D', 1], ['D', 1], ['D', 1]],
    'forever': [['ETERNITY']],
    # a child whose cleanup fails when it is closed: a failure that happens during the teardown of the scope
    'finraise': [['FINALLY', [['D', 3]], [['RAISE', 'ValueError', 'cleanup']]]],
    # children that are still waiting for their start date when the block ends
    'after2': [['D', 1]],
    'at2': [['D', 1], ['PROBE', 'now']],
    'after1': [['D', 2]],
    # a volatile helper that spawns one more regular child into the scope in the time step in which the last regular child
    # finishes (queued behind it, ahead of the owner's wake-up)
    'vspawn1': [['D', 1], ['TRY', [['DO', 'late', [['D', 1], ['PROBE', 'now']], {'scope': 's0'}]]], ['ETERNITY']],
    # a volatile helper that reacts to the shutdown of its scope (`await scope`) by handing in some last regular work
    'vwaitspawn': [['AWAITSCOPE', 's0'], ['TRY', [['DO', 'late', [['D', 1], ['PROBE', 'now']], {'scope': 's0'}]]], ['ETERNITY']],
    'vspawn2': [['D', 2], ['TRY', [['DO', 'late', [['D', 1], ['PROBE', 'now']], {'scope': 's0'}]]], ['ETERNITY']],
    # children whose payload is a bare awaitable instead of a coroutine
    'bare2': [], 'bareev': [], 'bareflag': [], 'bareinst': [],
}
CHILD_OPTS = {'after2': {'after': 2}, 'at2': {'at': 2}, 'after1': {'after': 1},
              'bare2': {'bare': ['DELAY', 2]}, 'bareev': {'bare': ['ETERNITY']}, 'bareflag': {'bare': ['F', 'stop']},
              'bareinst': {'bare': ['INSTANT']}}
VOLATILE = ('tick', 'forever', 'finspawn', 'd1', 'after2', 'finraise', 'vspawn1', 'vspawn2', 'vwaitspawn', 'bareev', 'bare2')
BODIES = {
    'none': [],
    'd1': [['D', 1]],
    'd2': [['D', 2]],
    'raise0': [['RAISE', 'RuntimeError', 'body']],
    'raise1': [['D', 1], ['RAISE', 'IndexError', 'body']],
    'priv1': [['D', 1], ['RAISE', 'KeyboardInterrupt', 'body']],
    'awaitf1': [['D', 1], ['INSTANT'], ['AWAIT', 'c1_victf'], ['D', 1]],
    # the owner subscribes a second time to the notification object of its own until block (kind untilf) and leaves that
    # inner block again; the outer block then ends for another reason
    # the body is woken (for another reason) behind a child that fails in that time step, and ends without another break point
    'i_d1': [['INSTANT'], ['D', 1]],
    'i_d1_raise': [['INSTANT'], ['D', 1], ['RAISE', 'IndexError', 'body']],
    'inuntil': [['UNTIL', 'in0', ['F', 'stop'], [['INSTANT']]]],
    'inuntil_d2': [['UNTIL', 'in0', ['F', 'stop'], [['INSTANT']]], ['D', 2]],
    'inuntil_raise0': [['UNTIL', 'in0', ['F', 'stop'], [['INSTANT']]], ['INSTANT'], ['RAISE', 'IndexError', 'body']],
}
KINDS = {'scope': None, 'until1': ['DELAY', 1], 'until2': ['DELAY', 2], 'untilf': ['F', 'stop'],
         'untilpast': ['EQ', -1], 'untilnow': ['GE', 0]}


def program(kind, kids, body, outsider=None):
    """kids: list of (child kind, volatile)"""
    dos = []
    for i, (ck, vol) in enumerate(kids):
        name = 'c%d_%s' % (i + 1, ck)
        script = rename(CHILD[ck], i + 1)
        opts = dict(CHILD_OPTS.get(ck, {}))
        if vol:
            opts['volatile'] = True
        dos.append(['DO', name, script, opts or None])
    inner = dos + BODIES[body]
    blk = ['SCOPE', 's0', inner] if kind == 'scope' else ['UNTIL', 's0', KINDS[kind], inner]
    owner = [['TRY', [blk]], ['PROBE', 'now'], ['D', 1]]
    mains = [['DO', 'owner', owner]]
    if kind == 'untilf':
        mains.append(['DO', 'setter', [['D', 1], ['SET', 'stop', True]]])
    if outsider is not None:
        mains.append(['DO', 'outsider', [['D', outsider], ['TRY', [['DO', 'xlate', [['D', 1], ['PROBE', 'now']], {'scope': 's0'}]]]]])
    return {'objs': {'stop': 'Flag'}, '_nops': 60,
            'roots': [['main', [['TRY', [['SCOPE', 'm', mains]]], ['D', 5], ['PROBE', 'now']]]]}


def rename(script, i):
    """give nested scopes/children of the i-th child unique names"""
    import json
    txt = json.dumps(script)
    for n in ('"n"', '"g1"', '"g2"', '"gv"', '"late"', '"fs"'):
        txt = txt.replace(n, n[:-1] + '_%d"' % i)
    return json.loads(txt)


def cases(tier):
    thorough = tier == 'thorough'
    out = []
    SPECIAL = ('vspawn1', 'vspawn2', 'vwaitspawn', 'bare2', 'bareev', 'bareflag', 'bareinst', 'fe1', 'fe1b', 'fe2')
    singles = [k for k in CHILD if k not in ('vict', 'killer', 'awaitv', 'victf', 'awaitf', 'awaitf1') + SPECIAL]
    pairs_a = ['d1', 'd2', 'f0', 'f1', 'f1b', 'f2', 'priv1', 'nest_fail', 'nest_slow', 'late1', 'waiter', 'finspawn', 'tick',
               'after2', 'at2', 'finraise']
    tri = ['d2', 'f1', 'f1b', 'nest_fail', 'waiter', 'tick'] if thorough else ['d2', 'f1', 'f1b', 'tick']
    bodies = [b for b in BODIES if b != 'awaitf1' and not b.startswith('inuntil') and not b.startswith('i_d1')]
    kinds = list(KINDS)
    def vols(ck):
        return (False, True) if ck in VOLATILE else (False,)
    for kind in kinds:
        for body in bodies:
            for ck in singles:
                for v in vols(ck):
                    if ck == 'forever' and not v:
                        continue
                    out.append(program(kind, [(ck, v)], body))
            pa = pairs_a if (thorough or kind in ('scope', 'until1')) else (pairs_a[::2] if kind != 'untilpast' else pairs_a[::3])
            for a, b in itertools.product(pa, pa):
                for va in vols(a)[-1:]:
                    for vb in vols(b)[-1:]:
                        if not thorough and body in ('d2', 'priv1') and kind != 'scope':
                            continue
                        out.append(program(kind, [(a, va and a != 'd1'), (b, vb and b != 'd1')], body))
        for body in (bodies if thorough else ['none', 'd1', 'raise1']):
            for a, b, c in itertools.product(tri, tri, tri):
                out.append(program(kind, [(a, a == 'tick'), (b, b == 'tick'), (c, c == 'tick')], body))
    # a child that fails because it awaited a cancelled sibling: that is a cancellation, not a failure to report
    for kind in ('scope', 'until2'):
        for body in ('none', 'd2', 'raise1'):
            for extra in (None, 'f1', 'd2', 'f2'):
                for order in (('vict', 'killer', 'awaitv'), ('vict', 'awaitv', 'killer')):
                    kids = [(k, False) for k in order] + ([(extra, False)] if extra else [])
                    out.append(program(kind, kids, body))
    # siblings (and the body) that await the very child that fails: they must be aborted, not fail with it as well
    for kind in ('scope', 'until2'):
        for body in ('none', 'd2'):
            for extra in ([], ['awaitf'], ['d2'], ['tick']):
                kids = [('victf', False), ('awaitf', False)] + [(e, e == 'tick') for e in extra]
                out.append(program(kind, kids, body))
                kids = [('victf', False), ('awaitf1', False)] + [(e, e == 'tick') for e in extra]
                out.append(program(kind, kids, body))
        for extra in ([], ['awaitf1'], ['d2']):
            out.append(program(kind, [('victf', False)] + [(e, False) for e in extra], 'awaitf1'))
    # privileged failures of a subclass type next to ordinary failures and to each other
    for kind in ('scope', 'until2'):
        for body in ('none', 'd2', 'raise1'):
            for kids in (('priv1s', 'f1'), ('f1', 'priv1s'), ('priv1s', 'priv1'), ('priv1', 'priv1s'), ('priv1k', 'f1b'),
                         ('f1', 'nest_priv'), ('nest_priv', 'priv1k'), ('d2', 'priv1s', 'f1b')):
                out.append(program(kind, [(k, False) for k in kids], body))
    # a volatile helper spawning a regular child right after the last regular child finished; children with bare awaitable
    # payloads alive at the end of the block; the owner subscribed twice to the notification of its until block
    for kind in kinds:
        for body in ('none', 'd1', 'd2', 'raise1'):
            for first in ('d1', 'd2', 'f1', 'nest_ok', 'tick'):
                for sp in ('vspawn1', 'vspawn2'):
                    out.append(program(kind, [(first, first == 'tick'), (sp, True)], body))
                    out.append(program(kind, [(sp, True), (first, first == 'tick')], body))
            # (the body ends while ONLY volatile children are alive, one of which waits for the shutdown to hand in regular work)
            out.append(program(kind, [('vwaitspawn', True)], body))
            out.append(program(kind, [('vwaitspawn', True), ('forever', True)], body))
            for other in ('d1', 'd2', 'f1'):
                out.append(program(kind, [('vwaitspawn', True), (other, False)], body))
                out.append(program(kind, [(other, False), ('vwaitspawn', True)], body))
            for b in ('bare2', 'bareev', 'bareflag', 'bareinst'):
                for v in ((False, True) if b in ('bare2', 'bareev') else (False,)):
                    if b == 'bareev' and not v:
                        continue
                    out.append(program(kind, [(b, v)], body))
                    for other in ('d1', 'f1', 'tick', 'd2'):
                        out.append(program(kind, [(b, v), (other, other == 'tick')], body))
                        out.append(program(kind, [(other, other == 'tick'), (b, v)], body))
    # failures that compare equal; a child failing just ahead of the body's own wake-up
    for kind in ('scope', 'until2', 'untilf'):
        for body in ('none', 'd2', 'raise1', 'i_d1'):
            for kids in (('fe1', 'fe1b'), ('fe1', 'fe1b', 'fe2'), ('fe1', 'f1', 'fe1b'), ('fe1', 'd2'), ('fe1', 'nest_fail', 'fe1b')):
                out.append(program(kind, [(k, False) for k in kids], body))
    for kind in kinds:
        for body in ('i_d1', 'i_d1_raise'):
            for kids in ([('f1', False)], [('f1', False), ('f1b', False)], [('d1', False), ('f1', False)], [('f1', False), ('tick', True)],
                         [('priv1', False)], [('nest_fail', False)], [('f1', True)], [('d1', False)], [('f2', False), ('d1', False)]):
                out.append(program(kind, kids, body))
    # volatile children that fail - alone (a scope without regular children), in the time step in which the body ends, next to
    # regular children
    for kind in kinds:
        for body in bodies:
            for kids in ([('f1', True)], [('f0', True)], [('f2', True)], [('f1', True), ('d1', False)], [('d1', False), ('f1', True)],
                         [('f1', True), ('tick', True)], [('f2', True), ('d2', False)], [('f1', True), ('f1b', True)], [('priv1', True)],
                         [('f1', True), ('f1b', False)]):
                out.append(program(kind, kids, body))
    for kind in ('untilf', 'scope', 'until2'):
        for body in ('inuntil', 'inuntil_d2', 'inuntil_raise0'):
            for kids in ([('tick', True)], [('d1', False)], [('d2', False), ('tick', True)], [('f1', False), ('d2', False)], [('forever', True), ('d1', False)]):
                out.append(program(kind, kids, body))
    # spawning into the scope from outside, before and after its end
    for kind in ('scope', 'until1'):
        for body in ('none', 'd1', 'raise1'):
            for ck in ('d1', 'd2', 'f1', 'tick'):
                for t in (1, 2, 3):
                    out.append(program(kind, [(ck, ck == 'tick')], body, outsider=t))
    return out


# ---- static structure ---------------------------------------------------------------------------
def structure(program):
    """scope name -> direct children (by DO position or opts.scope); activity -> scopes it owns"""
    direct, owns, script_of = {}, {}, {}

    def walk(act, script, stack):
        for op in script:
            k = op[0]
            if k in ('SCOPE', 'UNTIL'):
                name = op[1]
                owns.setdefault(act, []).append(name)
                direct.setdefault(name, [])
                walk(act, op[2] if k == 'SCOPE' else op[3], stack + [name])
            elif k == 'DO':
                opts = (op[3] if len(op) > 3 and op[3] else {})
                target = opts.get('scope') or (stack[-1] if stack else None)
                direct.setdefault(target, []).append(op[1])
                script_of[op[1]] = (op[2], opts)
                walk(op[1], op[2], [])
            elif k in ('TRY',):
                walk(act, op[1], stack)
            elif k == 'FINALLY':
                walk(act, op[1], stack)
                walk(act, op[2], stack)
    for name, script in program['roots']:
        walk(name, script, [])

    def desc(scope, seen=None):
        seen = seen if seen is not None else set()
        for c in direct.get(scope, ()):
            if c not in seen:
                seen.add(c)
                for s in owns.get(c, ()):
                    desc(s, seen)
        return seen
    return direct, owns, script_of, desc


def run_case(program, faults=()):
    ctx = run_one(program, faults)
    return ctx


def scope_instances(ctx):
    """[(name, owner act, pc, enter idx, left idx or None)]"""
    out = []
    open_ = {}
    for idx, (kind, act, pc, now, data) in enumerate(ctx.log):
        if kind == 'scope-enter':
            open_[(act, pc)] = (data, idx)
        elif kind == 'scope-left' and (act, pc) in open_:
            name, e = open_.pop((act, pc))
            out.append((name, act, pc, e, idx))
    for (act, pc), (name, e) in open_.items():
        out.append((name, act, pc, e, None))
    return out


def explore(program, tier, judge):
    rep = {'execs': 0, 'nontrivial': 0, 'outcomes': {}, 'viol': [], 'counters': {}}

    def one(prog, faults, label):
        ctx = run_one(prog, faults)
        msgs, nontrivial, key = judge(ctx, prog)
        rep['execs'] += 1
        rep['nontrivial'] += int(bool(nontrivial))
        k = '%s/%s' % (label, key)
        rep['outcomes'][k] = rep['outcomes'].get(k, 0) + 1
        if msgs:
            rep['viol'].append({'faults': {'program': prog, 'faults': faults} if prog is not program else faults,
                                'msgs': msgs})

    bounds = []
    ctx0 = run_one(program, (), observe=F.observer(bounds))
    one(program, [], 'plain')
    if rep['viol']:
        return rep
    pts, skipped = F.cancel_points(ctx0, bounds)
    rep['counters']['boundaries_skipped_internal'] = skipped
    for k, v in pts:
        if v in ('setter', 'outsider'):
            continue
        one(program, [{'k': k, 'kind': 'cancel', 'victim': v, 'token': 'x'}], 'cancel')
    for t, j in F.attack_positions(ctx0, 0):
        one(F.close_attack(program, 'owner', t, j), [], 'close-owner')
        one(F.until_attack(program, 'owner', t, j, True), [], 'until-owner')
    return rep


def replay_exec(case, faults, judge):
    if isinstance(faults, dict):
        ctx = run_one(faults['program'], faults['faults'])
        return judge(ctx, faults['program'])[0]
    ctx = run_one(case, faults)
    return judge(ctx, case)[0]
