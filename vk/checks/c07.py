"""C07 - until()/run(till) end the block exactly when the notification fires, else never."""
import itertools
from usim._primitives.context import CancelScope
from ..run import run_one
from ..clockmodel import Model, Invalid, judge_times, NEVER
from ..oracles import kernel_health

PROPERTY = 'C07'
LEVEL = 'exploration'
RULE = ('every program "owner: [delay]; until(N){body}; tail" next to a helper that sets/resets flags and tracked values at times '
        '{0,1,2} and a task finishing at 1 or 2, for N in {delay, time==/>= past/now/future, flag (set later, already set, set and '
        'reset), ~flag, tracked comparison (with a constant; of two values, changed on either side), task.done, a|b, a&b}, bodies {delays, eternity, children, empty, nested until with equal/'
        'earlier/later deadline or on the very same flag, a child cancelled in the time step of the trigger, a volatile child next to a '
        'not yet started regular child}, all relative orders of trigger and completion; plus run(till=T) over '
        'time-only programs. Oracle: clock model with leave = min(trigger, completion); the trigger of value-based notifications is '
        'read from the observed order of the helper records; non-trivial = the notification ended the block or tied with completion')
ASSUMPTIONS = [
    'times from {0,1,2,3}, one helper, one watched task; ties between trigger and completion accept both orders',
    'for flags/tracked values/task.done the trigger time is computed from the observed log order (holds on entry or first later change)',
    'until(a|b)/until(a&b) that is false on entry never fires: known finding C07/until-connective-false-on-entry',
]

INF = float('inf')


def BOUNDS(tier):
    return {'quick': {'pre_delays': [0, 1], 'helper_times': [0, 1, 2]}, 'thorough': {'pre_delays': [0, 1, 2], 'helper_times': [0, 1, 2, 3]}}[tier]


HELPERS = {
    'none': [],
    'A@0': [['SET', 'A', True]],
    'A@1': [['EQ', 1], ['SET', 'A', True]],
    'A@2': [['EQ', 2], ['SET', 'A', True]],
    'A@1-@1': [['EQ', 1], ['SET', 'A', True], ['SET', 'A', False]],
    'A@0-@2': [['SET', 'A', True], ['EQ', 2], ['SET', 'A', False]],
    'A@0-@1': [['SET', 'A', True], ['EQ', 1], ['SET', 'A', False]],
    'AB@1': [['EQ', 1], ['SET', 'A', True], ['SET', 'B', True]],
    'A@1B@2': [['EQ', 1], ['SET', 'A', True], ['EQ', 2], ['SET', 'B', True]],
    'X@1': [['EQ', 1], ['TADD', 'X', 1]],
    'X@2': [['EQ', 2], ['TADD', 'X', 1]],
    'X@1-@1': [['EQ', 1], ['TADD', 'X', 1], ['TADD', 'X', -1]],
    'X@1X@2': [['EQ', 1], ['TADD', 'X', 1], ['EQ', 2], ['TADD', 'X', 1]],
    'X@0X@1': [['TADD', 'X', 1], ['EQ', 1], ['TADD', 'X', 1]],
    'Y@1+': [['EQ', 1], ['TADD', 'Y', 1]],
    'B@1': [['EQ', 1], ['SET', 'B', True]],
    'Y@1': [['EQ', 1], ['TADD', 'Y', -1]],
    'Y@2': [['EQ', 2], ['TADD', 'Y', -1]],
    'Y@1-@1': [['EQ', 1], ['TADD', 'Y', -1], ['TADD', 'Y', 1]],
    # cancelling a child of the block in the time step in which the notification fires
    'Kc@1': [['EQ', 1], ['CANCEL', 'c', 'x']],
    'Kc@2': [['EQ', 2], ['CANCEL', 'c', 'x']],
    'A@1Kc': [['EQ', 1], ['SET', 'A', True], ['CANCEL', 'c', 'x']],
    'KcA@1': [['EQ', 1], ['CANCEL', 'c', 'x'], ['SET', 'A', True]],
}
TRACKED_INIT = {'X': 0, 'Y': 1}
NOTIFS = {
    'flag': (['F', 'A'], ['none', 'A@0', 'A@1', 'A@2', 'A@1-@1', 'A@0-@2', 'A@0-@1']),
    'nflag': (['NF', 'A'], ['none', 'A@0', 'A@0-@1', 'A@0-@2', 'A@1-@1']),
    'tracked': (['T', 'X', '>=', 1], ['none', 'X@1', 'X@2', 'X@1-@1']),
    # (a comparison of two tracked values fires when either side changes)
    'tracked2': (['TT', 'X', '>=', 'Y'], ['none', 'X@1', 'X@2', 'Y@1', 'Y@2', 'Y@1-@1']),
    # changes of the tracked value(s) that do not make the comparison true (yet)
    'tracked-far': (['T', 'X', '>=', 2], ['none', 'X@1', 'X@2', 'X@1X@2', 'X@0X@1', 'X@1-@1']),
    'tracked2-far': (['TT', 'X', '>', 'Y'], ['none', 'X@1', 'Y@1', 'Y@1+', 'X@1X@2']),
    'done1': (['DONE', 't1'], ['none']),
    'done2': (['DONE', 't2'], ['none']),
    'or': (['OR', ['F', 'A'], ['F', 'B']], ['none', 'A@0', 'A@1', 'AB@1', 'A@1B@2']),
    'and': (['AND', ['F', 'A'], ['F', 'B']], ['none', 'A@0', 'AB@1', 'A@1B@2', 'A@1', 'B@1', 'A@1-@1']),
    'or-t': (['OR', ['F', 'A'], ['GE', 2]], ['none', 'A@1']),
    'and-t': (['AND', ['F', 'A'], ['GE', 1]], ['A@0', 'A@2']),
}
TIMED = [['DELAY', 1], ['DELAY', 2]] + [['EQ', t] for t in (-1, 0, 1, 2)] + [['GE', t] for t in (-1, 0, 1, 2)]
BODIES = [[], [['D', 1]], [['D', 2]], [['D', 3]], [['ETERNITY']], [['D', 1], ['D', 1]],
          [['DO', 'c', [['D', 2], ['PROBE', 'now']]]], [['DO', 'c', [['ETERNITY']]], ['D', 1]],
          [['DO', 'c', [['D', 1], ['D', 1], ['D', 1]], {'volatile': True}], ['D', 2]]]
# bodies whose children are closed in special situations; only the owner's own operations are compared with the clock model
LOOSE_BODIES = [
    [['DO', 'c', [['FINALLY', [['D', 3]], [['TRY', [['DO', 'fs', [['D', 1], ['PROBE', 'now']], {'scope': 'u'}]]]]]]], ['D', 3]],
    [['DO', 'c', [['D', 1], ['PROBE', 'now']], {'after': 2}], ['D', 3]],
    [['DO', 'c', [['D', 1], ['PROBE', 'now']], {'at': 2}], ['ETERNITY']],
    [['DO', 'c', [['INTERVAL', 1, 5, [[], [], [], [], []]]]], ['D', 4]],
    [['DO', 'c', [['DELAYLOOP', 2, 3, [[], [], []]]], {'volatile': True}], ['D', 3]],
    [['DO', 'c', [['INTERVAL', 2, 3, [[['D', 1]], [], []]]], {'after': 1}], ['ETERNITY']],
    # a volatile child next to a regular child that has not had its first turn when the notification ends the block
    [['DO', 'v', [['DELAYLOOP', 1, 6, [[], [], [], [], [], []]]], {'volatile': True}], ['D', 1],
     ['DO', 'c', [['D', 2], ['PROBE', 'now']]], ['D', 2]],
    [['DO', 'v', [['DELAYLOOP', 1, 6, [[], [], [], [], [], []]]], {'volatile': True}], ['DO', 'c', [['D', 2], ['PROBE', 'now']]], ['D', 2]],
]
CANCEL_BODIES = [[['DO', 'c', [['ETERNITY']]], ['D', 3]], [['DO', 'c', [['D', 4], ['PROBE', 'now']]], ['ETERNITY']],
                 [['DO', 'c', [['D', 1], ['D', 1], ['PROBE', 'now']]], ['D', 3]]]
TAILS = [[['D', 1]], [['D', 3]]]


def program(pre, notif, body, tail, helper, start=0, helper2=None):
    owner = ([['D', pre]] if pre else []) + [['UNTIL', 'u', notif, body]] + [['PROBE', 'now']] + tail
    kids = [['DO', 't1', [['D', 1]]], ['DO', 't2', [['D', 2]]], ['DO', 'h', HELPERS[helper]], ['DO', 'owner', owner]]
    if helper2:
        kids.append(['DO', 'h2', HELPERS[helper2]])      # a helper that takes its turns after the owner
    return {'start': start, 'objs': {'A': 'Flag', 'B': 'Flag', 'X': ['Tracked', 0], 'Y': ['Tracked', 1]}, '_nops': 40,
            'roots': [['root', [['SCOPE', 'm', kids]]]]}


def cases(tier):
    out = []
    thorough = tier == 'thorough'
    pres = (0, 1, 2) if thorough else (0, 1)
    for pre in pres:
        for n in TIMED:
            for body in BODIES:
                for tail in TAILS:
                    for start in (0, 3, -2) if thorough else (0, -2):       # (-2: the date 0 is then a future date)
                        out.append(program(pre, n, body, tail, 'none', start))
        for key, (n, helpers) in NOTIFS.items():
            for h in helpers:
                for body in BODIES:
                    for tail in TAILS[:1] if not thorough else TAILS:
                        out.append(program(pre, n, body, tail, h))
    for pre in pres:
        for n in TIMED + [NOTIFS['flag'][0]]:
            for body in LOOSE_BODIES:
                for h in (('A@1', 'A@2') if n[0] == 'F' else ('none',)):
                    p = program(pre, n, body, [['D', 5]], h)
                    p['_loose'] = True
                    out.append(p)
    # a child of the block is cancelled in the very time step in which the notification ends the block
    for n in TIMED[:2] + [['EQ', 1], ['EQ', 2], ['GE', 1], ['GE', 2], ['F', 'A']]:
        for body in CANCEL_BODIES:
            for h in (('A@1Kc', 'KcA@1') if n[0] == 'F' else ('Kc@1', 'Kc@2')):
                for second in (False, True):
                    p = program(0, n, body, [['D', 5]], 'none' if second else h, helper2=h if second else None)
                    p['_loose'] = True
                    out.append(p)
    # dates without exact binary representation, entered at such times (a date must not move by a float round trip)
    for pre in (0.2, 0.3, 0.1):
        for n in (['EQ', 0.9], ['GE', 0.9], ['EQ', 1.1], ['GE', 0.7], ['DELAY', 0.7]):
            for body in ([['D', 1]], [['ETERNITY']], [['DO', 'c', [['D', 2], ['PROBE', 'now']]]]):
                out.append(program(pre, n, body, [['D', 0.1]], 'none'))
    # nested until: equal / earlier / later deadlines, and the very same flag object
    nest_n = [['DELAY', 1], ['DELAY', 2], ['EQ', 1], ['EQ', 2], ['GE', 1], ['GE', 2], ['F', 'A'], ['T', 'X', '>=', 1]]
    for n1, n2 in itertools.product(nest_n, nest_n):
        for inner in ([['D', 1]], [['D', 3]], [['ETERNITY']]):
            for mid in ([], [['D', 1]], [['D', 3]]):
                for h in ('A@1', 'A@2', 'X@2') if (n1[0] in 'FT' or n2[0] in 'FT') else ('none',):
                    body = [['UNTIL', 'v', n2, inner]] + mid
                    out.append(program(0, n1, body, [['D', 3]], h))
    # the body awaits the watched notification itself under a shorter inner timeout
    for h in ('A@2', 'A@1'):
        out.append(program(0, ['F', 'A'], [['UNTIL', 'v', ['DELAY', 1], [['WAIT', ['F', 'A']]]], ['D', 3]], [['D', 3]], h))
    # run(till=T) over time-only programs
    small = [['D', 1], ['D', 2], ['EQ', 1], ['GE', 2], ['INSTANT'], ['ETERNITY'], ['UNTIL', 'w', ['EQ', 1], [['D', 2]]],
             ['UNTIL', 'w', ['EQ', 2], [['D', 3]]], ['SCOPE', 'w', [['DO', 'k', [['D', 2], ['PROBE', 'now']]]]]]
    scripts = [[a] for a in small] + [[a, b] for a in small[:6] for b in small]
    for till in (0, 1, 2):
        for start in (0, 3):
            for s1 in scripts:
                out.append({'start': start, 'till': till, 'roots': [['a', s1]]})
                for s2 in ([['D', 1], ['D', 1]], [['EQ', 2], ['INSTANT']]):
                    out.append({'start': start, 'till': till, 'roots': [['a', s1], ['b', s2]]})
    valid = []
    for p in out:
        try:
            Model(p, resolver=lambda e, t0, act, pc: t0)
        except Invalid:
            continue
        valid.append(p)
    return valid


def is_connective(n):
    return n[0] in ('AND', 'OR')


def state_resolver(ctx, program):
    """trigger time of a notification for the until-block entered by (act, pc), read from the observed log"""
    log = ctx.log
    start = program.get('start', 0)

    def holds(e, idx, t):
        k = e[0]
        if k in ('F', 'NF'):
            v = False
            for r in log[:idx]:
                if r[0] == 'start' and r[4] == 'SET':
                    op = find_op(program, r[1], r[2])
                    if op and op[1] == e[1]:
                        v = op[2]
            return v if k == 'F' else not v
        if k in ('T', 'TT'):
            v = dict(TRACKED_INIT)
            for r in log[:idx]:
                if r[0] == 'start' and r[4] == 'TADD':
                    op = find_op(program, r[1], r[2])
                    if op:
                        v[op[1]] += op[2]
            from ..dsl import CMP
            return CMP[e[2]](v[e[1]], (e[3] if k == 'T' else v[e[3]]))
        if k == 'DONE':
            return any(r[0] in ('finish', 'abort') and r[1] == e[1] for r in log[:idx])
        if k == 'GE':
            return t >= start + e[1]
        if k == 'EQ':
            return t == start + e[1]
        if k == 'AND':
            return all(holds(x, idx, t) for x in e[1:])
        if k == 'OR':
            return any(holds(x, idx, t) for x in e[1:])
        raise ValueError(e)

    def resolve(e, t0, act, pc):
        k = e[0]
        if k in ('DELAY', 'GE', 'EQ', 'LT', 'INSTANT', 'ETERNITY'):
            return None
        enter = next((i for i, r in enumerate(log) if r[0] in ('scope-enter', 'start') and r[1] == act and r[2] == pc
                      and (r[0] == 'scope-enter' or r[4] == 'WAIT')), None)
        if enter is None:
            return t0
        if holds(e, enter + 1, t0):
            return t0
        # first later moment at which it fires: a change that makes it hold
        for i in range(enter + 1, len(log)):
            r = log[i]
            if (r[0] == 'start' and r[4] in ('SET', 'TADD')) or r[0] in ('finish', 'abort'):
                if holds(e, i + 1, r[3]):
                    return r[3]
        # time atoms inside connectives
        for t in sorted({start + x[1] for x in (e[1:] if is_connective(e) else []) if x[0] in ('GE', 'EQ')}):
            if t >= t0 and holds(e, len(log), t):
                return t
        return NEVER
    return resolve


def find_op(program, act, pc):
    from .c04 import ST_op
    return ST_op(program, act, pc)


def check_exec(program, faults=()):
    ctx = run_one(program, faults)
    resolve = state_resolver(ctx, program)

    def resolver(e, t0, act, pc):
        r = resolve(e, t0, act, pc)
        return model_holder[0].trigger(e, t0) if r is None else r
    model_holder = [None]

    class M(Model):
        def __init__(self, *a, **kw):
            model_holder[0] = self
            super().__init__(*a, **kw)
    model = M(program, resolver=resolver)
    only = (lambda act, pc: act == 'owner' and len(pc) == 1) if program.get('_loose') else None
    msgs = judge_times(model, ctx.log, only=only)
    log = ctx.log
    # the block raises nothing into the script when its own notification ended it
    for idx, (kind, act, pc, now, data) in enumerate(log):
        if kind == 'exc' and isinstance(data, CancelScope):
            op = find_op(program, act, pc)
            if op and op[0] == 'UNTIL' and data.subject is ctx.scopes.get(op[1]):
                msgs.append('until block %s raised its own signal into the script at %r' % (op[1], now))
    # no record of children after the block was left
    from . import scopetree as ST
    direct, owns, script_of, desc = ST.structure(program)
    for name, act, pc, e_idx, l_idx in ST.scope_instances(ctx):
        if l_idx is None or name == 'm':
            continue
        d = desc(name)
        for i in range(l_idx + 1, len(log)):
            if log[i][1] in d and log[i][0] != 'inject':
                msgs.append('%s of %s ran at %r after block %s was left at %r' % (log[i][0], log[i][1], log[i][3], name, log[l_idx][3]))
                break
    # run(till=T): nothing executes later than T and run returns normally
    if program.get('till') is not None:
        T = program.get('start', 0) + program['till']
        # (library-internal helper coroutines such as the one-shot trigger of an unused date run no scenario code)
        late = [t for t in ctx.trace if t[1] > T and (not t[2].startswith('~') or 'Interp.' in t[2])]
        if late:
            msgs.append('run(till=%r) executed %d activations later than that, first %r' % (T, len(late), late[0]))
        if any(r[3] is not None and r[3] > T for r in log):
            msgs.append('run(till=%r): scenario code ran later than that' % T)
    msgs += kernel_health(ctx)
    if ctx.outcome is not None:
        msgs.append('run() raised %r' % (ctx.outcome,))
    # non-trivial: the notification ended (or tied with) some block
    nontrivial = any(dl != INF and e >= dl for (s, e, dl) in model.ops.values())
    return ctx, msgs, nontrivial


def explore_case(program, tier):
    ctx, msgs, nontrivial = check_exec(program)
    key = 'till' if program.get('till') is not None else ('fired' if nontrivial else 'completed')
    return {'execs': 1, 'nontrivial': int(nontrivial), 'outcomes': {key: 1},
            'viol': [{'faults': [], 'msgs': msgs}] if msgs else [], 'counters': {}}


def replay(case, faults):
    return check_exec(case, faults)[1]


def until_connective_false_on_entry(case, faults, msgs):
    """known finding: the watched notification is an a|b / a&b that does not hold when the block is entered"""
    def find(script):
        for op in script:
            if not isinstance(op, list) or not op:
                continue                      # (an empty body of a ticker iteration)
            if not isinstance(op[0], str):
                if find(op):                  # a list of bodies
                    return True
                continue
            if op[0] == 'UNTIL' and is_connective(op[2]):
                return True
            for a in op[1:]:
                if isinstance(a, list) and a and isinstance(a[0], list) and find(a):
                    return True
        return False
    if not any(find(s) for _, s in case['roots']):
        return False
    # every message must be about the block (or what follows from it) being left late, never about a signal or error
    bad = ('internal', 'signal', 'raised', 'livelock', 'clock', 'fifo', 'work-')
    return not any(any(b in m for b in bad) for m in msgs)


MATCHERS = {'until_connective_false_on_entry': until_connective_false_on_entry}
