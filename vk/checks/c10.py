"""C10 - Queue delivers every accepted item exactly once, in order, to waiters in order."""
import itertools
from usim import StreamClosed
from usim._core.loop import Interrupt
from ..run import run_one
from ..oracles import kernel_health, containment
from .. import faults as F

PROPERTY = 'C10'
LEVEL = 'fault_enumeration'
RULE = ('every program of 1-2 producers (1-2 distinct items, arrival 0/+1) and 1-3 consumers (single get, two gets, '
        'iteration until closed, iteration of one item; arrival 0/+1) on one Queue that is closed by the root at a chosen '
        'moment and finally drained; fault-free and with one deviation: cancel at every activation boundary of every '
        'participant, until-interrupt and forceful close swept over every position of every FIFO round. Oracle: list '
        'model (exactly once, put order, waiter order, close semantics); non-trivial = a consumer had to wait for an item, '
        'or a fault landed on a participant inside put/get/iteration')
ASSUMPTIONS = [
    'one queue, <= 2 producers x <= 2 items, <= 3 consumers, close at one of 3 moments',
    'an item whose put was interrupted before completing may be delivered or not, but at most once',
    'receiver order is judged between single gets that were pending at the same time',
]


def producer(name, arrival, nitems, gap):
    s = [['D', 1]] if arrival else []
    for i in range(nitems):
        if i and gap:
            s.append(['INSTANT'])
        s.append(['TRY', [['PUT', 'q', '%s%d' % (name, i)]]])
    return s


def consumer(arrival, kind):
    s = [['D', 1]] if arrival else []
    if kind == 'get':
        s.append(['TRY', [['GET', 'q']]])
    elif kind == 'get2':
        s += [['TRY', [['GET', 'q']]], ['TRY', [['GET', 'q']]]]
    elif kind == 'iter':
        s.append(['ITER', 'q', None, []])
    elif kind == 'iter1':
        s.append(['ITER', 'q', 1, []])
    elif kind == 'iterslow':
        s.append(['ITER', 'q', None, [['D', 1]]])
    return s


CLOSES = {'early': [['INSTANT'], ['CLOSE', 'q']], 'one': [['D', 1], ['CLOSE', 'q']], 'late': [['D', 3], ['CLOSE', 'q']]}


def program(prods, conss, close):
    kids = []
    for i, s in enumerate(prods):
        kids.append(['DO', 'p%d' % (i + 1), s])
    for i, s in enumerate(conss):
        kids.append(['DO', 'c%d' % (i + 1), s])
    return {'objs': {'q': 'Queue'}, '_nops': 40,
            'roots': [['root', [['SCOPE', 's', kids + CLOSES[close]], ['TRY', [['CLOSE', 'q']]],
                                ['ITER', 'q', None, []], ['PROBE', 'now']]]]}


def close_at(program, t, j):
    """the same program, but closed by a separate activity at virtual time t after j postponements"""
    import copy
    p = copy.deepcopy(program)
    body = p['roots'][0][1][0][2]
    while body and body[-1][0] != 'DO':
        body.pop()
    body.append(['DO', 'closer', [['EQ', t], ['SPIN', j], ['CLOSE', 'q']]])
    return p


def BOUNDS(tier):
    return {'quick': {'producers': 2, 'items_each': 2, 'consumers': '1-2 (3 with a reduced alphabet)', 'deviations': 1},
            'thorough': {'producers': 2, 'items_each': 2, 'consumers': 3, 'deviations': 1}}[tier]


def cases(tier):
    out = []
    thorough = tier == 'thorough'
    P1 = [[producer('a', a, n, g)] for a in (0, 1) for n in (1, 2) for g in ((0, 1) if n == 2 else (0,))]
    P2 = [[producer('a', a1, n1, 0), producer('b', a2, n2, 0)] for a1 in (0, 1) for n1 in (1, 2) for a2 in (0, 1)
          for n2 in ((1, 2) if thorough else (1,))]
    kinds = ('get', 'get2', 'iter', 'iter1', 'iterslow')
    C1 = [consumer(a, k) for a in (0, 1) for k in kinds]
    Cs = [consumer(a, k) for a in (0, 1) for k in ('get', 'iter')] + [consumer(0, 'iter1')]
    for close in ('early', 'one', 'late'):
        for p in P1:
            for c in C1:
                out.append(program(p, [c], close))
            for c1, c2 in itertools.product(C1 if thorough else C1[:7], C1 if thorough else Cs):
                out.append(program(p, [c1, c2], close))
        for p in P2:
            for c in Cs:
                out.append(program(p, [c], close))
            for c1, c2 in itertools.product(Cs, Cs):
                out.append(program(p, [c1, c2], close))
    tri = Cs if thorough else Cs[:3]
    for close in ('one', 'late'):
        for p in (P1[:3] + P2[:2]) if not thorough else (P1 + P2[:4]):
            for c1, c2, c3 in itertools.product(tri, tri, tri):
                out.append(program(p, [c1, c2, c3], close))
    # items that are falsy (None, 0, '') - a queue hands out what was put, whatever it is
    falsy = [[['TRY', [['PUT', 'q', 0]]], ['TRY', [['PUT', 'q', 'a1']]]], [['D', 1], ['TRY', [['PUT', 'q', None]]], ['TRY', [['PUT', 'q', '']]]]]
    for close in ('early', 'one', 'late'):
        for p in ([falsy[0]], [falsy[1]], falsy):
            for c1, c2 in itertools.product([consumer(0, 'get'), consumer(0, 'iter'), consumer(1, 'get2'), consumer(0, 'iter1')], repeat=2):
                out.append(program(p, [c1, c2], close))
    # four consumers queued at once: a waiter leaving the middle of the queue
    quad = [consumer(0, 'get'), consumer(0, 'iter1')]
    for close in ('late',):
        # (producers arrive later than the consumers, so that all four really queue up)
        late_p = [[producer('a', 1, 2, 0)], [producer('a', 1, 2, 1)]] + ([[producer('a', 1, 2, 0), producer('b', 1, 1, 0)]] if thorough else [])
        for p in late_p:
            for cs in itertools.product(quad, repeat=4):
                out.append(program(p, list(cs), close))
    # puts whose awaitable is made some time before the put is performed (`p = queue.put(x)` ... `await p`), also performed in
    # another order than they were made, also after the close: an item enters the queue when the put is performed
    prep = [[['PUTPREP', 'q', 'a0', 0], ['D', 1], ['TRY', [['PUT', 'q', 'a0', 0]]]],
            [['PUTPREP', 'q', 'a0', 0], ['PUTPREP', 'q', 'a1', 1], ['D', 1], ['TRY', [['PUT', 'q', 'a1', 1]]], ['TRY', [['PUT', 'q', 'a0', 0]]]],
            [['PUTPREP', 'q', 'a0', 0], ['TRY', [['PUT', 'q', 'a1']]], ['D', 1], ['TRY', [['PUT', 'q', 'a0', 0]]]],
            [['PUTPREP', 'q', 'a0', 0], ['D', 4], ['TRY', [['PUT', 'q', 'a0', 0]]]]]
    for close in ('one', 'late'):
        for p in prep:
            for c1, c2 in itertools.product(C1[:7], Cs):
                out.append(program([p], [c1, c2], close))
    return out


def queue_model(ctx):
    msgs = []
    log = ctx.log
    # pair start/end/exc per (act, pc)
    ops = {}
    for idx, (kind, act, pc, now, data) in enumerate(log):
        if kind == 'start':
            ops[(act, pc)] = {'op': data, 'start': idx, 'act': act}
        elif kind in ('end', 'exc') and (act, pc) in ops:
            ops[(act, pc)][kind] = idx
            ops[(act, pc)]['val'] = data
    # program text gives the item of each PUT: find via interpreter program
    items = {}
    def walk(act, script, path):
        for i, op in enumerate(script):
            pc = path + (i,)
            if op[0] == 'PUT':
                items[(act, pc)] = op[2]
            elif op[0] == 'DO':
                walk(op[1], op[2], ())
            for arg in op[1:]:
                if isinstance(arg, list) and arg and isinstance(arg[0], list) and op[0] != 'DO':
                    walk(act, arg, pc)
    for name, script in ctx.interp.program['roots']:
        walk(name, script, ())
    close_idx = min([o['start'] for o in ops.values() if o['op'] == 'CLOSE'], default=None)
    sure, maybe, refused = [], [], []      # (start idx, item)
    for key, o in ops.items():
        if o['op'] != 'PUT':
            continue
        item = items[key]
        if 'end' in o:
            sure.append((o['start'], item))
            if close_idx is not None and o['start'] > close_idx:
                msgs.append('put of %r after close was accepted' % (item,))
        elif 'exc' in o and isinstance(o['val'], StreamClosed):
            refused.append(item)
            if close_idx is None or o['start'] < close_idx:
                msgs.append('put of %r raised StreamClosed before any close' % (item,))
        else:
            maybe.append((o['start'], item))
    # receives in completion order
    received = []     # (idx, item, act)
    for idx, (kind, act, pc, now, data) in enumerate(log):
        if kind == 'iter-item':
            received.append((idx, data, act))
        elif kind == 'end' and (act, pc) in ops and ops[(act, pc)]['op'] == 'GET' and ops[(act, pc)].get('end') == idx:
            received.append((idx, data, act))
    got = [it for _, it, _ in received]
    for it in set(got):
        if got.count(it) > 1:
            msgs.append('item %r was received %d times' % (it, got.count(it)))
    for it in got:
        if it in refused:
            msgs.append('item %r of a refused put was received' % (it,))
        elif it not in [i for _, i in sure] and it not in [i for _, i in maybe]:
            msgs.append('item %r was received but never put' % (it,))
    root_done = any(r[0] == 'finish' and r[1] == 'root' for r in log)
    if root_done:
        for st, it in sure:
            if it not in got:
                msgs.append('item %r was accepted by put but never received nor left in the queue' % (it,))
    else:
        msgs.append('the root could not drain the closed queue (run ended with the root blocked)')
    # order: receives complete in put order
    put_order = [it for _, it in sorted(sure + maybe)]
    seq = [put_order.index(it) for it in got if it in put_order]
    if seq != sorted(seq):
        msgs.append('items were received in the order %r but put in the order %r' % (got, put_order))
    # StreamClosed only once the buffer is empty; and only after close
    for key, o in ops.items():
        if o['op'] in ('GET',) and 'exc' in o and isinstance(o['val'], StreamClosed):
            s = o['exc']
            if close_idx is None or s < close_idx:
                msgs.append('%s got StreamClosed before the queue was closed' % (o['act'],))
            pending = [it for st, it in sure if st < s and it not in [i for ix, i, _ in received if ix < s]]
            if pending:
                msgs.append('%s got StreamClosed while %r were still buffered' % (o['act'], pending))
        if o['op'] == 'ITER' and 'end' in o and o['act'] != 'root':
            n_none = True
        if o['op'] == 'GET' and 'end' not in o and 'exc' not in o:
            msgs.append('%s is still waiting in get at the end although the queue is closed' % (o['act'],))
    # iteration until closed must not end before close, nor with items buffered
    for idx, (kind, act, pc, now, data) in enumerate(log):
        if kind == 'end' and (act, pc) in ops and ops[(act, pc)]['op'] == 'ITER':
            o = ops[(act, pc)]
            prog_op = None
            # an ITER with n=None ends only by StreamClosed inside the iterator
            if o.get('n_none', None) is None:
                pass
    # waiter order among single gets pending at the same time
    INF_IDX = len(log) + 1
    def leave(o):      # when the get stopped waiting: served, refused (closed), aborted - or never
        return o.get('end', o.get('exc', INF_IDX))
    gets = sorted([o for o in ops.values() if o['op'] == 'GET'], key=lambda o: o['start'])
    for a, b in itertools.combinations(gets, 2):
        # a started waiting before b; b was served an item while a was still waiting and a was not served before b
        a_aborted = 'exc' in a and not isinstance(a['val'], StreamClosed)
        if 'end' in b and b['start'] < leave(a) and b['end'] < leave(a) and not a_aborted:
            msgs.append('%s started waiting before %s but %s was served first' % (a['act'], b['act'], b['act']))
    # timeliness: a receive completes in the time step in which its item is available and it is its turn:
    # at max(own start, put time of the item, latest earlier moment another receiver left the queue)
    put_time = {it: log[st][3] for st, it in sure + maybe}
    leave_events = []     # (idx, act, time)
    for idx, (kind, act, pc, now, data) in enumerate(log):
        if kind in ('iter-item', 'iter-leave') or (kind in ('end', 'exc') and (act, pc) in ops
                                                   and ops[(act, pc)]['op'] == 'GET'):
            leave_events.append((idx, act, now))
    for idx, item, act in received:
        if item not in put_time:
            continue
        own_start = max((i for i in range(idx) if log[i][1] == act), default=None)
        t_start = log[own_start][3] if own_start is not None else log[idx][3]
        others = [t for i, a, t in leave_events if i < idx and a != act]
        bound = max([t_start, put_time[item]] + others[-1:])
        if log[idx][3] != bound:
            msgs.append('%s received %r at %r, but it asked at %r, the item was put at %r and the previous receiver '
                        'left at %r' % (act, item, log[idx][3], t_start, put_time[item], others[-1:] or None))
    waited = any(o['op'] == 'GET' and 'end' in o and log[o['end']][3] != log[o['start']][3] for o in ops.values())
    return msgs, waited, ops


def iter_ends_ok(ctx, ops):
    """an iteration with n=None may only end after close, with nothing of the accepted items left unreceived
    at that moment"""
    msgs = []
    prog_iters = {}
    def walk(act, script, path):
        for i, op in enumerate(script):
            pc = path + (i,)
            if op[0] == 'ITER':
                prog_iters[(act, pc)] = op[2]
            elif op[0] == 'DO':
                walk(op[1], op[2], ())
            for arg in op[1:]:
                if isinstance(arg, list) and arg and isinstance(arg[0], list) and op[0] != 'DO':
                    walk(act, arg, pc)
    for name, script in ctx.interp.program['roots']:
        walk(name, script, ())
    close_idx = min([o['start'] for o in ops.values() if o['op'] == 'CLOSE'], default=None)
    for key, n in prog_iters.items():
        o = ops.get(key)
        if o and 'end' in o and n is None:
            if close_idx is None or o['end'] < close_idx:
                msgs.append('%s: iteration ended at step %d before the queue was closed' % (key[0], o['end']))
    return msgs


def check_exec(program, faults=()):
    ctx = run_one(program, faults)
    msgs, waited, ops = queue_model(ctx)
    msgs += iter_ends_ok(ctx, ops)
    msgs += kernel_health(ctx)
    msgs += containment(ctx, program)
    if ctx.outcome is not None:
        msgs.append('run() raised %r' % (ctx.outcome,))
    return ctx, msgs, waited


def fault_hit(ctx, victim):
    depth = 0
    for kind, act, pc, now, data in ctx.log:
        if act == victim and kind == 'start' and data in ('PUT', 'GET', 'ITER'):
            depth += 1
        elif act == victim and kind in ('end', 'exc') and depth:
            depth -= 1
        elif kind == 'inject' and act == victim:
            return depth > 0
    return False


def explore_case(program, tier):
    rep = {'execs': 0, 'nontrivial': 0, 'outcomes': {}, 'viol': [], 'counters': {}}

    def one(prog, faults, label, victim=None):
        ctx, msgs, waited = check_exec(prog, faults)
        rep['execs'] += 1
        hit = fault_hit(ctx, victim) if (victim and faults) else waited
        rep['nontrivial'] += int(bool(hit))
        key = '%s/%s' % (label, 'waited' if waited else 'nowait')
        rep['outcomes'][key] = rep['outcomes'].get(key, 0) + 1
        if msgs:
            rep['viol'].append({'faults': {'program': prog, 'faults': faults} if prog is not program else faults,
                                'msgs': msgs})
        return ctx

    bounds = []
    ctx0 = run_one(program, (), observe=F.observer(bounds))
    one(program, [], 'plain')
    if rep['viol']:
        return rep      # the fault-free run already violates: report it, do not multiply it
    pts, skipped = F.cancel_points(ctx0, bounds)
    rep['counters']['boundaries_skipped_internal'] = skipped
    for k, v in pts:
        one(program, [{'k': k, 'kind': 'cancel', 'victim': v, 'token': 'x'}], 'cancel', v)
    victims = [op[1] for op in program['roots'][0][1][0][2] if op[0] == 'DO']
    # a participant that has already finished is cancelled (teardown code cancelling all its tasks): nothing may change
    alive_at = {k: set(alive) for k, _, alive in bounds}
    allpts, _ = F.cancel_points(ctx0, bounds, victims=victims, include_done=True)
    for v in victims:
        gone = [k for k, vv in allpts if vv == v and v not in alive_at[k] and any(r[0] == 'begin' and r[1] == v for r in ctx0.log)]
        for k in sorted(set(gone[:2] + gone[-1:])):
            one(program, [{'k': k, 'kind': 'cancel', 'victim': v, 'token': 'late'}], 'cancel-gone')
    positions = F.attack_positions(ctx0, 0)
    # the moment of close swept over every position of every FIFO round (fault-free)
    for t, j in positions:
        one(close_at(program, t, j), [], 'closepos')
    # the whole scope is aborted: all receivers and senders still running are closed in one go
    if len(victims) > 1:
        for t, j in positions:
            if j <= 1:
                one(F.abort_all_attack(program, t, j), [], 'closeall')
    for v in victims:
        for t, j in positions:
            one(F.until_attack(program, v, t, j, True), [], 'until')
            if tier == 'thorough':
                one(F.until_attack(program, v, t, j, False), [], 'until')
            one(F.close_attack(program, v, t, j), [], 'close')
    return rep


def replay(case, faults):
    if isinstance(faults, dict):
        return check_exec(faults['program'], faults['faults'])[1]
    return check_exec(case, faults)[1]
