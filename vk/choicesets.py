"""Explorer-controlled iteration order for unordered containers created inside usim modules.

Module globals shadow builtins, so injecting `set` / `frozenset` / `WeakSet` into every usim module makes every
such container constructed by usim code (by name) iterate in an order chosen by the explorer: a permutation of
the insertion order.  For containers of <= 3 elements the six policies are ALL possible iteration orders."""
import sys
import weakref

POLICIES = ('forward', 'reverse', 'rot1', 'rot2', 'swap01', 'swap12', 'altA', 'altB')
_policy = ['forward']
_created = [0]        # containers created since install(): the alternating policies give neighbours opposite orders


def new_index():
    _created[0] += 1
    return _created[0]


def permute(items, idx=0):
    p = _policy[0]
    if p in ('altA', 'altB'):
        # two containers need not agree on their order (a real memory layout orders every container independently):
        # containers created one after the other iterate in opposite directions
        p = 'forward' if (idx % 2 == 0) == (p == 'altA') else 'reverse'
    n = len(items)
    if n < 2 or p == 'forward':
        return items
    if p == 'reverse':
        return items[::-1]
    if p == 'rot1':
        return items[1:] + items[:1]
    if p == 'rot2':
        return items[2 % n:] + items[:2 % n]
    if p == 'swap01':
        return [items[1], items[0]] + items[2:]
    if p == 'swap12':
        return items[:1] + items[1:3][::-1] + items[3:] if n >= 3 else items[::-1]
    raise ValueError(p)


class ChoiceSet(set):
    """a set that remembers insertion order and iterates in the explorer's permutation of it"""
    def __init__(self, iterable=()):
        super().__init__()
        self._order = []
        self._idx = new_index()
        for x in iterable:
            self.add(x)

    def add(self, x):
        if x not in self:
            self._order.append(x)
        super().add(x)

    def discard(self, x):
        if x in self:
            self._order.remove(x)
        super().discard(x)

    def remove(self, x):
        if x not in self:
            raise KeyError(x)
        self.discard(x)

    def pop(self):
        x = next(iter(self))
        self.discard(x)
        return x

    def clear(self):
        self._order.clear()
        super().clear()

    def copy(self):
        return ChoiceSet(self._order)

    def update(self, *others):
        for o in others:
            for x in o:
                self.add(x)

    def __iter__(self):
        return iter(permute(list(self._order), self._idx))


class ChoiceFrozenSet(frozenset):
    def __new__(cls, iterable=()):
        items = []
        for x in iterable:
            if x not in items:
                items.append(x)
        self = super().__new__(cls, items)
        self._order = items
        self._idx = new_index()
        return self

    def __iter__(self):
        return iter(permute(list(self._order), self._idx))


class ChoiceWeakSet:
    """minimal WeakSet replacement with controlled iteration order"""
    def __init__(self, data=None):
        self._refs = []
        self._idx = new_index()
        if data is not None:
            for x in data:
                self.add(x)

    def _live(self):
        self._refs = [r for r in self._refs if r() is not None]
        return [r() for r in self._refs]

    def add(self, x):
        if not any(o is x for o in self._live()):
            self._refs.append(weakref.ref(x))

    def discard(self, x):
        self._refs = [r for r in self._refs if r() is not None and r() is not x]

    remove = discard

    def __contains__(self, x):
        return any(o is x for o in self._live())

    def __len__(self):
        return len(self._live())

    def __iter__(self):
        return iter(permute(self._live(), self._idx))

    def copy(self):
        return ChoiceWeakSet(self._live())


def install(policy):
    _policy[0] = policy
    _created[0] = 0
    import usim  # noqa: F401  (make sure all modules are loaded)
    import usim.py  # noqa: F401
    n = 0
    for name, mod in list(sys.modules.items()):
        if name == 'usim' or name.startswith('usim.'):
            if mod is None:
                continue
            mod.__dict__['set'] = ChoiceSet
            mod.__dict__['frozenset'] = ChoiceFrozenSet
            mod.__dict__['WeakSet'] = ChoiceWeakSet
            n += 1
    return n


def scan_unordered(root):
    """AST scan: every construction of an unordered container in usim that the injection cannot reach
    (set literals / comprehensions) or reaches (calls by name) - reported in the evidence"""
    import ast
    import os
    literal, by_name = [], []
    for dirpath, _, files in os.walk(os.path.join(root, 'usim')):
        for f in files:
            if not f.endswith('.py'):
                continue
            path = os.path.join(dirpath, f)
            try:
                tree = ast.parse(open(path).read())
            except SyntaxError:
                continue
            for node in ast.walk(tree):
                if isinstance(node, (ast.Set, ast.SetComp)):
                    literal.append('%s:%d' % (os.path.relpath(path, root), node.lineno))
                elif isinstance(node, ast.Call) and isinstance(node.func, ast.Name) and node.func.id in ('set', 'frozenset', 'WeakSet'):
                    by_name.append('%s:%d %s' % (os.path.relpath(path, root), node.lineno, node.func.id))
    return sorted(literal), sorted(by_name)
