"""One execution of one scenario program (plus injected faults) on the real usim kernel."""
import gc
import sys
import warnings
import usim
from .kernel import Ctx, CURRENT, Runaway, install, HarnessError, ExecTimer
from .dsl import Interp

warnings.simplefilter('ignore')
_UNRAISABLE = []


def _quiet_unraisable(unraisable):
    _UNRAISABLE.append(unraisable.exc_type)


def setup_process():
    install()
    try:
        import resource
        resource.setrlimit(resource.RLIMIT_AS, (8 << 30, 8 << 30))   # a runaway must not eat the machine
    except (ImportError, ValueError, OSError):
        pass
    sys.unraisablehook = _quiet_unraisable
    gc.disable()


def run_one(program, faults=(), observe=None, limits=None):
    """Run `program` with `faults`; returns the execution context (log, trace, findings, outcome)."""
    nops = program.get('_nops', 20)
    ctx = Ctx(faults, limits or (1000 + 200 * nops, 5000 + 500 * nops), observe)
    ctx.payloads = {}
    interp = Interp(ctx, program)
    ctx.interp = interp
    roots = []
    for name, script in program['roots']:
        coro = interp.activity(name, script)
        ctx.names[id(coro)] = name
        roots.append(coro)
    ctx.outcome = None
    ctx.runaway = None
    if program.get('_prior'):
        # the scenario's objects (locks, queues, flags ...) have been used before, by an earlier simulation on this thread: the
        # same roots are run to their end in a separate usim.run() first; only the second simulation is observed and judged
        pctx = Ctx((), limits or (1000 + 200 * nops, 5000 + 500 * nops), None)
        pctx.payloads = {}
        pinterp = Interp(pctx, {'start': program.get('start', 0), 'objs': {}, 'roots': program['roots']})
        pctx.objs = ctx.objs
        pctx.interp = pinterp
        proots = [pinterp.activity(name, script) for name, script in program['roots']]
        CURRENT.append(pctx)
        try:
            with ExecTimer():
                usim.run(*proots, start=program.get('start', 0))
        except BaseException as e:
            ctx.findings.append(('prior-run-failed', repr(e)))
        finally:
            CURRENT.pop()
        pctx.closed = True
        for coro in list(reversed(pinterp.coros)) + list(pctx.keep):
            try:
                coro.close()
            except BaseException:
                pass
    CURRENT.append(ctx)
    import usim._core.loop as _loopmod
    import usim._core.waitq as _waitq
    saved_wq = _loopmod.WaitQueue
    if program.get('_waitq') == 'SD':
        _loopmod.WaitQueue = _waitq.SDWaitQueue       # the alternative backend of the time-keyed queue (USIM_WAITQUEUE=SD)
    elif program.get('_waitq') == 'HQ':
        _loopmod.WaitQueue = _waitq.HQWaitQueue
    try:
        kw = {}
        if program.get('till') is not None:
            kw['till'] = interp.T(program['till'])
        with ExecTimer():
            if program.get('_in_handler'):
                # the whole simulation runs while its caller is handling an exception (run() called from an except block)
                try:
                    raise LookupError('the caller of run() is handling this')
                except LookupError:
                    usim.run(*roots, start=program.get('start', 0), **kw)
            else:
                usim.run(*roots, start=program.get('start', 0), **kw)
    except Runaway as r:
        ctx.runaway = r
        ctx.findings.append((r.kind, r.detail))
    except BaseException as e:    # scenario code may raise KeyboardInterrupt / SystemExit on purpose
        ctx.outcome = e
    finally:
        CURRENT.pop()
        _loopmod.WaitQueue = saved_wq
    ctx.end_time = ctx.trace[-1][1] if ctx.trace else program.get('start', 0)
    if ctx.runaway is None and ctx.outcome is None:
        for loop in ctx.loops:
            for key, entries in list(loop.queued.items()) + [('now', loop.cur or [])]:
                left = [(ctx.name_of(t), type(s).__name__) for t, s in entries
                        if s is None or not s._revoked]
                if left:
                    ctx.findings.append(('work-left-at-end', (key, left)))
    ctx.closed = True
    # close everything we created, outside any loop, so that no finaliser runs inside a later simulation
    for coro in reversed(interp.coros):
        try:
            coro.close()
        except BaseException:
            pass
    for coro in ctx.keep:
        try:
            coro.close()
        except BaseException:
            pass
    return ctx


def collect_garbage():
    gc.collect()
    _UNRAISABLE.clear()
