"""Scenario language: programs are plain data, interpreted into real coroutines that call only
the public usim API.  The interpreter brackets every operation with log records but never adds
an ``await`` of its own, so a scenario schedules exactly like the same program written by hand.

program = {"start": 0, "till": None, "objs": {name: spec}, "roots": [[name, script], ...]}
script  = [op, ...];  op = [opcode, args...]
"""
import operator
import usim
from usim import (time, eternity, instant, Flag, Tracked, Lock, Queue, Channel, Resources,
                  Capacities, Pipe, UnboundedPipe, Scope, until, Concurrent, StreamClosed,
                  ResourcesUnavailable, IntervalExceeded, interval, delay, first, collect)

INF = float('inf')
EXC = {n: getattr(__import__('builtins'), n) for n in
       ('KeyError', 'IndexError', 'ValueError', 'LookupError', 'RuntimeError', 'TypeError',
        'AssertionError', 'KeyboardInterrupt', 'SystemExit', 'ZeroDivisionError')}


class Mismatch(AssertionError):
    """a proper subclass of a privileged exception type"""


class Abort(KeyboardInterrupt):
    """a proper subclass of a privileged exception type"""


class Empty(Exception):
    """an exception whose instances are falsy (a collection-like error that is raised empty)"""
    def __len__(self):
        return 0


class BaseA(Exception):
    """user-defined exception hierarchies (heap types: their hashes follow the memory layout)"""


class SubA(BaseA):
    pass


class BaseB(Exception):
    pass


class SubB(BaseB):
    pass


class EqErr(Exception):
    """distinct exception objects that compare equal"""
    def __eq__(self, other):
        return isinstance(other, EqErr)

    def __hash__(self):
        return 11


EXC['EqErr'] = EqErr
for _c in (BaseA, SubA, BaseB, SubB):
    EXC[_c.__name__] = _c
EXC['Empty'] = Empty
EXC['Mismatch'] = Mismatch
EXC['Abort'] = Abort
CMP = {'<': operator.lt, '<=': operator.le, '==': operator.eq, '!=': operator.ne,
       '>=': operator.ge, '>': operator.gt}


class _Return(BaseException):
    def __init__(self, value):
        super().__init__(value)
        self.value = value


def num(x):
    if isinstance(x, dict) and x.get('$') == 'frac':
        import fractions
        return fractions.Fraction(x['n'], x['d'])
    return INF if x == 'inf' else x


import enum as _enum


class Phase(_enum.Enum):
    """values that themselves have a ``.value`` attribute"""
    IDLE = 1
    BUSY = 2
    DONE = 3


class Box:
    """a value with a misleading ``.value``: equality follows the label only"""
    def __init__(self, label, value):
        self.label, self.value = label, value

    def __eq__(self, other):
        return isinstance(other, Box) and other.label == self.label

    def __ne__(self, other):
        return not self == other

    def __hash__(self):
        return hash(self.label)

    def __repr__(self):
        return 'Box(%r)' % (self.label,)


def val(x):
    """values of tracked objects / right operands: plain data, or {"$": "enum", "n": name} / {"$": "box", "l": label, "v": value}"""
    if isinstance(x, dict) and '$' in x:
        if x['$'] == 'enum':
            return Phase[x['n']]
        if x['$'] == 'box':
            return Box(x['l'], x['v'])
        raise ValueError(x)
    return x


def make_obj(spec):
    kind = spec[0] if isinstance(spec, (list, tuple)) else spec
    args = spec[1:] if isinstance(spec, (list, tuple)) else ()
    if kind == 'Flag':
        return Flag()
    if kind == 'Lock':
        return Lock()
    if kind == 'Queue':
        return Queue()
    if kind == 'Channel':
        return Channel()
    if kind == 'Tracked':
        return Tracked(val(args[0]))
    if kind == 'Resources':
        return Resources(**args[0])
    if kind == 'Capacities':
        return Capacities(**args[0])
    if kind == 'Pipe':
        return Pipe(throughput=num(args[0]))
    if kind == 'UnboundedPipe':
        return UnboundedPipe()
    raise ValueError('unknown object spec %r' % (spec,))


class Interp:
    def __init__(self, ctx, program):
        self.ctx = ctx
        self.program = program
        self.start = program.get('start', 0)
        late = []
        for name, spec in program.get('objs', {}).items():
            if isinstance(spec, (list, tuple)) and spec[0] in ('Borrow', 'Claim'):
                late.append((name, spec))       # a borrow/claim context object that several blocks can enter
            else:
                ctx.objs[name] = make_obj(spec)
        ctx.shares = []          # ((act, pc), context object, amounts): every borrow/claim context the scenario created
        for name, spec in late:
            ctx.objs[name] = getattr(ctx.objs[spec[1]], spec[0].lower())(**spec[2])
            ctx.shares.append(((name, ()), ctx.objs[name], dict(spec[2])))
        self.scope_stack = {}     # activity -> list of (scope name, scope)
        self.children_of = {}     # scope name -> activities accepted by scope.do
        self.coros = []           # every coroutine we created, closed explicitly afterwards

    # -- expressions ---------------------------------------------------------------------------
    def T(self, t):
        """dates are written relative to the start time"""
        return self.start + num(t)

    def cond(self, e):
        k = e[0]
        o = self.ctx.objs
        if k == 'F':
            return o[e[1]]
        if k == 'NF':
            return ~o[e[1]]
        if k == 'T':
            return CMP[e[2]](o[e[1]], val(e[3]))
        if k == 'TT':         # comparison of two tracked values
            return CMP[e[2]](o[e[1]], o[e[3]])
        if k == 'R':          # resource level comparison, e.g. ["R", "r0", ">=", {"a": 1}]
            return CMP[e[2]](o[e[1]], dict(e[3]))
        if k == 'DONE':
            return self.ctx.tasks[e[1]].done
        if k == 'NDONE':
            return ~self.ctx.tasks[e[1]].done
        if k == 'GE':
            return time >= self.T(e[1])
        if k == 'LT':
            return time < self.T(e[1])
        if k == 'EQ':
            return time == self.T(e[1])
        if k == 'DELAY':
            return time + num(e[1])
        if k == 'INSTANT':
            return instant
        if k == 'ETERNITY':
            return eternity
        if k == 'NOT':
            return ~self.cond(e[1])
        if k == 'AND':
            r = self.cond(e[1])
            for x in e[2:]:
                r = r & self.cond(x)
            return r
        if k == 'OR':
            r = self.cond(e[1])
            for x in e[2:]:
                r = r | self.cond(x)
            return r
        if k == 'SCOPE':
            return self.ctx.scopes[e[1]]
        if k == 'C':
            # a named condition object (program['conds'][name]), built when first used and shared by every later use
            store = self.__dict__.setdefault('shared_conds', {})
            if e[1] not in store:
                store[e[1]] = self.cond(self.program['conds'][e[1]])
            return store[e[1]]
        raise ValueError('unknown condition %r' % (e,))

    # -- activities ----------------------------------------------------------------------------
    def activity(self, act, script):
        coro = self._activity(act, script)
        self.coros.append(coro)
        return coro

    async def _activity(self, act, script):
        ctx = self.ctx
        ctx.rec('begin', act, ())
        try:
            await self.block(act, script, ())
        except _Return as r:
            ctx.rec('finish', act, (), r.value)
            return r.value
        except BaseException as e:
            ctx.rec('abort', act, (), e)
            raise
        else:
            ctx.rec('finish', act, ())

    async def block(self, act, script, path):
        for i, op in enumerate(script):
            await self.op(act, op, path + (i,))

    async def op(self, act, op, pc):
        ctx = self.ctx
        ctx.rec('start', act, pc, op[0])
        try:
            value = await getattr(self, 'op_' + op[0])(act, pc, *op[1:])
        except BaseException as e:
            ctx.rec('exc', act, pc, e)
            raise
        ctx.rec('end', act, pc, value)

    # -- time ------------------------------------------------------------------------------------
    async def op_D(self, act, pc, d):
        await (time + num(d))

    async def op_EQ(self, act, pc, t):
        await (time == self.T(t))

    async def op_GE(self, act, pc, t):
        await (time >= self.T(t))

    async def op_LT(self, act, pc, t):
        await (time < self.T(t))

    async def op_INSTANT(self, act, pc):
        await instant

    async def op_ETERNITY(self, act, pc):
        await eternity

    async def op_SPIN(self, act, pc, n):
        for _ in range(n):
            await instant

    async def op_SPINLOG(self, act, pc, n):
        """a competing runnable activity: takes n turns in the current time step, logging each"""
        for i in range(n):
            self.ctx.rec('turn', act, pc, i)
            await instant
        self.ctx.rec('turn', act, pc, n)

    async def op_WAIT(self, act, pc, e):
        r = await self.cond(e)
        # the values of all atoms at the very moment the wait returns (same activation, no await in between)
        self.ctx.rec('wait-done', act, pc, self.snapshot())
        return r

    def snapshot(self):
        snap = {'now': time.now}
        for name, obj in self.ctx.objs.items():
            if isinstance(obj, Flag):
                snap[name] = bool(obj)
            elif isinstance(obj, Tracked):
                snap[name] = obj.value
            elif isinstance(obj, (Resources, Capacities)):
                snap[name] = dict(obj.levels)
        for name, task in self.ctx.tasks.items():
            # (from the status, not from the `done` condition itself: the condition is what is being judged)
            snap['done:' + name] = task.status.name in ('SUCCESS', 'FAILED', 'CANCELLED')
        return snap

    # -- flags / tracked -------------------------------------------------------------------------
    async def op_SET(self, act, pc, f, v=True):
        await self.ctx.objs[f].set(v)

    async def op_NSET(self, act, pc, f, v=True):
        """set the flag through its inverse: (~flag).set(v)"""
        await (~self.ctx.objs[f]).set(v)

    async def op_TSET(self, act, pc, x, v):
        await self.ctx.objs[x].set(val(v))

    async def op_BOOL(self, act, pc, e):
        """the condition is built, used in a boolean context and dropped (never waited for)"""
        return bool(self.cond(e))

    async def op_TADD(self, act, pc, x, k):
        await (self.ctx.objs[x] + k)

    # -- lock ------------------------------------------------------------------------------------
    async def op_LOCK(self, act, pc, l, body):
        lock = self.ctx.objs[l]
        ctx = self.ctx
        ctx.rec('lock-request', act, pc, l)
        try:
            async with lock:
                ctx.rec('lock-enter', act, pc, l)
                try:
                    await self.block(act, body, pc)
                finally:
                    ctx.rec('lock-leave', act, pc, l)
        finally:
            ctx.rec('lock-gone', act, pc, l)

    # -- streams ---------------------------------------------------------------------------------
    async def op_PUT(self, act, pc, q, item, slot=None):
        if slot is not None:        # the put object was made earlier (PUTPREP); the put is performed now
            return await self.prepared.pop(slot)
        await self.ctx.objs[q].put(item)

    async def op_PUTPREP(self, act, pc, q, item, slot):
        """make the awaitable of a put without performing it: `p = stream.put(item)`"""
        aw = self.ctx.objs[q].put(item)
        if not hasattr(self, 'prepared'):
            self.prepared = {}
        self.prepared[slot] = aw
        if hasattr(aw, 'close'):
            self.coros.append(aw)

    async def op_GET(self, act, pc, q):
        return await self.ctx.objs[q]

    async def op_CLOSE(self, act, pc, q):
        await self.ctx.objs[q].close()

    async def op_ITER(self, act, pc, q, n, body):
        """iterate q, running body per item; leave after n items (n None: until closed)"""
        ctx = self.ctx
        count = 0
        ctx.rec('iter-subscribe', act, pc, q)
        try:
            async for item in self.ctx.objs[q]:
                ctx.rec('iter-item', act, pc, item)
                count += 1
                await self.block(act, body, pc + ('b', count))
                if n is not None and count >= n:
                    break
        finally:
            ctx.rec('iter-leave', act, pc, q)
        return count

    # -- resources -------------------------------------------------------------------------------
    def _res(self, act, r):
        if r == '@':        # innermost borrowed share of this activity
            return self.share_stack[act][-1]
        return self.ctx.objs[r]

    share_stack = None

    async def _borrow(self, act, pc, r, amounts, body, how):
        ctx = self.ctx
        if self.share_stack is None:
            self.share_stack = {}
        res = self._res(act, r)
        ctx.rec('res-acquiring', act, pc, (r, amounts, how))
        try:
            cm = getattr(res, how)(**amounts)
            ctx.shares.append(((act, pc), cm, dict(amounts)))
            async with cm as share:
                ctx.rec('res-held', act, pc, (r, amounts, how))
                self.share_stack.setdefault(act, []).append(share)
                try:
                    await self.block(act, body, pc)
                finally:
                    self.share_stack[act].pop()
                    ctx.rec('res-releasing', act, pc, (r, amounts, how))
        finally:
            ctx.rec('res-gone', act, pc, (r, amounts, how))

    async def op_ENTER(self, act, pc, slot, body):
        """enter the named borrow/claim context object (objs: ["Borrow"|"Claim", resources, amounts]); the same object may
        be entered by several activities, or again after it was left"""
        ctx = self.ctx
        if self.share_stack is None:
            self.share_stack = {}
        spec = self.program['objs'][slot]
        r, amounts, how = spec[1], spec[2], spec[0].lower()
        ctx.rec('res-acquiring', act, pc, (r, amounts, how))
        try:
            async with ctx.objs[slot] as share:
                ctx.rec('res-held', act, pc, (r, amounts, how))
                self.share_stack.setdefault(act, []).append(share)
                try:
                    await self.block(act, body, pc)
                finally:
                    self.share_stack[act].pop()
                    ctx.rec('res-releasing', act, pc, (r, amounts, how))
        finally:
            ctx.rec('res-gone', act, pc, (r, amounts, how))

    async def op_BORROW(self, act, pc, r, amounts, body):
        await self._borrow(act, pc, r, amounts, body, 'borrow')

    async def op_CLAIM(self, act, pc, r, amounts, body):
        await self._borrow(act, pc, r, amounts, body, 'claim')

    async def op_CLAIMLATE(self, act, pc, r, amounts, wait, body):
        """the claim object is created first and entered only after `wait` (availability is judged on entry)"""
        ctx = self.ctx
        res = self._res(act, r)
        claim = res.claim(**amounts)
        await (time + wait)
        ctx.rec('res-acquiring', act, pc, (r, amounts, 'claim'))
        try:
            async with claim:
                ctx.rec('res-held', act, pc, (r, amounts, 'claim'))
                try:
                    await self.block(act, body, pc)
                finally:
                    ctx.rec('res-releasing', act, pc, (r, amounts, 'claim'))
        finally:
            ctx.rec('res-gone', act, pc, (r, amounts, 'claim'))

    async def op_INC(self, act, pc, r, amounts):
        await self.ctx.objs[r].increase(**amounts)

    async def op_DEC(self, act, pc, r, amounts):
        await self.ctx.objs[r].decrease(**amounts)

    async def op_RSET(self, act, pc, r, amounts):
        await self.ctx.objs[r].set(**amounts)

    # -- pipe ------------------------------------------------------------------------------------
    async def op_XFER(self, act, pc, p, total, limit=None):
        await self.ctx.objs[p].transfer(total=num(total), throughput=limit)

    # -- scopes ----------------------------------------------------------------------------------
    async def _scope(self, act, pc, name, scope, body):
        ctx = self.ctx
        stack = self.scope_stack.setdefault(act, [])
        try:
            async with scope:
                ctx.scopes[name] = scope
                stack.append((name, scope))
                ctx.rec('scope-enter', act, pc, name)
                try:
                    await self.block(act, body, pc)
                except BaseException as e:
                    ctx.rec('scope-body-exc', act, pc, (name, e))
                    raise
                finally:
                    ctx.rec('scope-body-end', act, pc, name)
        finally:
            if stack and stack[-1][0] == name:
                stack.pop()
            ctx.rec('scope-left', act, pc, name)
            # public state of every task that was accepted into this scope, read at the moment the block is left
            ctx.rec('scope-children', act, pc, (name, {c: ctx.tasks[c].status.name
                                                       for c in self.children_of.get(name, ())},
                                                {c: bool(ctx.tasks[c].done) for c in self.children_of.get(name, ())}))

    async def op_SCOPE(self, act, pc, name, body):
        await self._scope(act, pc, name, Scope(), body)

    async def op_UNTIL(self, act, pc, name, e, body):
        await self._scope(act, pc, name, until(self.cond(e)), body)

    async def op_DO(self, act, pc, child, script, opts=None):
        """spawn `script` as activity `child` in the innermost scope of this activity,
        or in the named scope opts['scope']"""
        opts = opts or {}
        if 'scope' in opts:
            scope = self.ctx.scopes[opts['scope']]
        else:
            scope = self.scope_stack[act][-1][1]
        kw = {}
        if opts.get('after') is not None:
            kw['after'] = opts['after']
        if opts.get('at') is not None:
            kw['at'] = self.T(opts['at'])
        if opts.get('volatile'):
            kw['volatile'] = True
        if opts.get('bare') is not None:
            # the payload is a bare awaitable (a delay, a condition, another task ...), not a coroutine of the scenario
            coro = self.ctx.tasks[opts['bare'][1]] if opts['bare'][0] == 'TASK' else self.cond(opts['bare'])
        else:
            coro = self.activity(child, script)
        task = scope.do(coro, **kw)
        sname = opts.get('scope') or self.scope_stack[act][-1][0]
        self.children_of.setdefault(sname, []).append(child)
        self.ctx.tasks[child] = task
        self.ctx.names[id(task.__runner__)] = child
        self.ctx.keep.append(task.__runner__)
        self.ctx.payloads[child] = coro
        return None

    # -- tasks -----------------------------------------------------------------------------------
    async def op_CANCEL(self, act, pc, task, token=None):
        t = self.ctx.tasks.get(task)
        if t is None:
            # the task was never spawned (its spawner was itself cancelled or interrupted first): nothing to cancel
            self.ctx.rec('cancel-skipped', act, pc, task)
            return
        self.ctx.cancel_requests.append((task, token, None, t.status))
        self.ctx.rec('inject', task, ('cancel',), {'token': token, 'status': t.status, 'k': None, 'by': act})
        if token is None:
            t.cancel()
        else:
            t.cancel(token)

    async def op_AWAIT(self, act, pc, task):
        return await self.ctx.tasks[task]

    async def op_AWAITDONE(self, act, pc, task):
        return await self.ctx.tasks[task].done

    async def op_AWAITSCOPE(self, act, pc, scope):
        return await self.ctx.scopes[scope]

    # -- flow ------------------------------------------------------------------------------------
    async def op_INTERVAL(self, act, pc, period, n, bodies, pre=None):
        """async for over interval(period); i-th body run is bodies[i]; leave after n ticks.
        pre: create the iterator first and keep it in a variable, then wait `pre`, then iterate"""
        if pre:
            it = interval(num(period))
            await (time + pre)
            self.ctx.rec('iter-begin', act, pc, None)
            return await self._ticks(act, pc, it, n, bodies)
        self.ctx.rec('iter-begin', act, pc, None)
        # (no variable refers to the iterator: it is finalised as soon as this frame is left, however that happens)
        count = 0
        async for now in interval(num(period)):
            self.ctx.rec('tick', act, pc, now)
            body = bodies[count] if count < len(bodies) else []
            count += 1
            await self.block(act, body, pc + ('b', count))
            if count >= n:
                break
        return count

    async def op_DELAYLOOP(self, act, pc, period, n, bodies, pre=None):
        if pre:
            it = delay(num(period))
            await (time + pre)
            self.ctx.rec('iter-begin', act, pc, None)
            return await self._ticks(act, pc, it, n, bodies)
        self.ctx.rec('iter-begin', act, pc, None)
        count = 0
        async for now in delay(num(period)):
            self.ctx.rec('tick', act, pc, now)
            body = bodies[count] if count < len(bodies) else []
            count += 1
            await self.block(act, body, pc + ('b', count))
            if count >= n:
                break
        return count

    async def _ticks(self, act, pc, it, n, bodies):
        count = 0
        async for now in it:
            self.ctx.rec('tick', act, pc, now)
            body = bodies[count] if count < len(bodies) else []
            count += 1
            await self.block(act, body, pc + ('b', count))
            if count >= n:
                break
        return count

    async def op_SUBRUN(self, act, pc, d):
        """a complete nested simulation (two plain activities, lasting d) is run from inside this activity"""
        import usim as _usim

        async def inner(span):
            await (time + span)
            await instant
        _usim.run(inner(d), inner(0), start=1000)

    async def op_COLLECT(self, act, pc, names, scripts):
        """await collect(*activities); the i-th activity is named names[i]"""
        coros = [self.activity(n, sc) for n, sc in zip(names, scripts)]
        return await collect(*coros)

    async def op_FIRST(self, act, pc, names, scripts, count, bodies, stop_after=None):
        """async for over first(*activities, count=count); runs bodies[i] after the i-th result;
        breaks out after stop_after results (None: never)"""
        ctx = self.ctx
        coros = [self.activity(n, sc) for n, sc in zip(names, scripts)]
        got = []
        kw = {} if count == 'default' else {'count': count}
        try:
            async for result in first(*coros, **kw):
                ctx.rec('first-item', act, pc, result)
                got.append(result)
                body = bodies[len(got) - 1] if len(got) - 1 < len(bodies) else []
                await self.block(act, body, pc + ('b', len(got)))
                if stop_after is not None and len(got) >= stop_after:
                    break
        finally:
            ctx.rec('first-leave', act, pc, list(got))
        return got

    # -- control ---------------------------------------------------------------------------------
    async def op_RAISE(self, act, pc, exc, tag=None):
        e = EXC[exc]('%s@%s' % (tag if tag is not None else exc, act))
        self.ctx.raised.append(e)
        raise e

    async def op_RETURN(self, act, pc, value):
        raise _Return(value)

    async def op_TRY(self, act, pc, body):
        try:
            await self.block(act, body, pc)
        except (Exception, Concurrent) as e:
            self.ctx.rec('caught', act, pc, e)
            return e

    async def op_MATCH(self, act, pc, body, types, inclusive=False):
        """run body; a failure is matched against Concurrent[types] - the program's control flow follows the verdict"""
        try:
            await self.block(act, body, pc)
        except (Exception, Concurrent) as e:
            spec = tuple(EXC[t] for t in types) + ((...,) if inclusive else ())
            verdict = isinstance(e, Concurrent[spec] if spec else Concurrent)
            self.ctx.rec('matched', act, pc, verdict)
            if verdict:
                await instant
            else:
                await (time + 1)

    async def op_FINALLY(self, act, pc, body, cleanup):
        """try: body  finally: cleanup  (cleanup must not suspend when the activity is being closed)"""
        try:
            await self.block(act, body, pc + ('t',))
        finally:
            await self.block(act, cleanup, pc + ('f',))

    async def op_ONCANCEL(self, act, pc, body, cleanup):
        """a payload that handles its cancellation gracefully: catch CancelTask, clean up (may suspend), re-raise"""
        from usim import CancelTask
        try:
            await self.block(act, body, pc + ('t',))
        except CancelTask:
            self.ctx.rec('cancel-caught', act, pc, None)
            await self.block(act, cleanup, pc + ('f',))
            raise

    async def op_PROBE(self, act, pc, what, arg=None):
        o = self.ctx.objs
        if what == 'now':
            return time.now
        if what == 'available':
            return o[arg].available
        if what == 'levels':
            return dict(o[arg].levels)
        if what == 'flag':
            return bool(o[arg])
        if what == 'value':
            return o[arg].value
        if what == 'status':
            return self.ctx.tasks[arg].status.name
        if what == 'closed':
            return o[arg].closed
        raise ValueError(what)

    async def op_NOP(self, act, pc):
        return None
