"""Deviation-bounded fault exploration: cancels injected at activation boundaries, and attacker
activities (until-interrupt, forceful close) swept over every position of every FIFO round."""
import copy
from .run import run_one


def observer(store):
    def observe(ctx, loop, k):
        alive = [n for n, t in ctx.tasks.items() if t._result is None]
        store.append((k, loop.time, alive))
    return observe


def cancel_points(ctx0, bounds, victims=None, include_done=False):
    """All (k, victim) pairs for one injected cancel, from the observed fault-free execution.
    Boundaries whose two neighbouring activations both belong to library-internal coroutines are skipped."""
    pts = []
    skipped = 0
    trace = ctx0.trace
    for k, now, alive in bounds:
        before = trace[k - 1][2] if k - 1 < len(trace) else '~'
        after = trace[k][2] if k < len(trace) else None
        if before.startswith('~') and (after is None or after.startswith('~')):
            skipped += 1
            continue
        names = alive if not include_done else list(ctx0.tasks)
        for v in names:
            if victims is None or v in victims:
                pts.append((k, v))
    return pts, skipped


def find_do(script, victim):
    """locate the ['DO', victim, ...] op anywhere below `script`; returns (containing list, index)"""
    if not isinstance(script, list):
        return None
    for i, op in enumerate(script):
        if isinstance(op, list) and len(op) >= 3 and op[0] == 'DO' and op[1] == victim:
            return script, i
    for op in script:
        if isinstance(op, list):
            r = find_do(op, victim)
            if r:
                return r
    return None


def times_and_rounds(ctx0):
    """virtual times at which the fault-free execution has activations, with their number"""
    rounds = {}
    for _, t, name, kind in ctx0.trace:
        rounds[t] = rounds.get(t, 0) + 1
    return sorted(rounds.items())


def until_attack(program, victim, t_rel, j, first):
    """the victim's whole script runs inside until(flag); an attacker root sets the flag at (t, j)"""
    p = copy.deepcopy(program)
    for name, script in p['roots']:
        r = find_do(script, victim)
        if r:
            lst, i = r
            lst[i][2] = [['UNTIL', 'atk-u', ['F', 'atk-f'], lst[i][2]]]
            break
    else:
        raise ValueError('no victim %r' % victim)
    p.setdefault('objs', {})['atk-f'] = 'Flag'
    attacker = ['atk', [['EQ', t_rel], ['SPIN', j], ['SET', 'atk-f', True]]]
    p['roots'] = [attacker] + p['roots'] if first else p['roots'] + [attacker]
    return p


def close_attack(program, victim, t_rel, j):
    """the victim becomes the child of a killer activity whose scope body raises at (t, j):
    the victim is closed forcefully (GeneratorExit) wherever it is suspended at that moment"""
    p = copy.deepcopy(program)
    for name, script in p['roots']:
        r = find_do(script, victim)
        if r:
            lst, i = r
            do = lst[i]
            opts = do[3] if len(do) > 3 else None
            killer = [['TRY', [['SCOPE', 'atk-s', [['DO', victim, do[2], opts], ['EQ', t_rel], ['SPIN', j],
                                                   ['RAISE', 'KeyError', 'kill']]]]]]
            lst[i] = ['DO', 'atk-' + victim, killer]
            break
    else:
        raise ValueError('no victim %r' % victim)
    return p


def attack_positions(ctx0, start):
    """(t relative to start, j) for every position in every FIFO round of the fault-free run"""
    out = []
    for t, n in times_and_rounds(ctx0):
        if t == float('inf'):
            continue
        for j in range(0, n + 2):
            out.append((t - start, j))
    return out


def abort_all_attack(program, t_rel, j):
    """the root's first scope is aborted by its own body raising at (t, j): every child still alive is closed
    forcefully in one go (and the scope's remaining body is skipped)"""
    p = copy.deepcopy(program)
    script = p['roots'][0][1]
    for i, op in enumerate(script):
        if op[0] == 'SCOPE':
            kids = [o for o in op[2] if o[0] == 'DO']
            script[i] = ['TRY', [['SCOPE', op[1], kids + [['EQ', t_rel], ['SPIN', j], ['RAISE', 'KeyError', 'abort']]]]]
            return p
    raise ValueError('no scope in root')
