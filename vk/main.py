import os
import sys


def main(argv):
    if not argv:
        print('usage: vcheck <ID>|selftest|replay <file> [--tier quick|thorough]')
        return 2
    tier = os.environ.get('VERIF_TIER', 'quick')
    if '--tier' in argv:
        i = argv.index('--tier')
        tier = argv[i + 1]
        del argv[i:i + 2]
    seed = int(os.environ.get('VERIF_SEED', '0') or 0)
    from . import explore
    from .kernel import HarnessError
    try:
        if argv[0] == 'replay':
            return explore.replay_file(argv[1])
        if argv[0] == 'selftest':
            from . import selftest
            return selftest.main()
        import importlib
        mod = importlib.import_module('vk.checks.' + argv[0].lower())
        if hasattr(mod, 'run'):
            return mod.run(tier, seed)      # checks with their own driver (several interpreter configurations)
        return explore.run_check(argv[0].lower(), tier, seed)
    except HarnessError as e:
        print('HARNESS-ERROR: %s' % e)
        return 2
    except Exception:      # noqa  - a bug in the machinery is never to be mistaken for a verdict (exit code 1)
        import traceback
        traceback.print_exc()
        print('HARNESS-ERROR: the check itself failed (see the traceback above)')
        return 2


if __name__ == '__main__':
    sys.exit(main(sys.argv[1:]))
