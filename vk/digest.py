"""Canonical, address-free digest of one execution (log + activation trace) for differential comparison."""
import hashlib
import json
import re
from .oracles import exc_key

ADDR = re.compile(r'0x[0-9a-fA-F]+|@ ?\d{6,}')


def canon(x):
    if isinstance(x, BaseException):
        args = []
        for a in getattr(x, 'args', ()):
            args.append(canon(a) if not isinstance(a, BaseException) else exc_key(a))
        return ['exc', exc_key(x) if not type(x).__name__.startswith('Concurrent') else exc_key(x), ADDR.sub('#', repr(args))[:200]]
    if isinstance(x, dict):
        return [[canon(k), canon(v)] for k, v in x.items()]        # order matters: iteration order is observable
    if isinstance(x, (list, tuple)):
        return [canon(v) for v in x]
    if isinstance(x, (int, float, str, bool)) or x is None:
        return x
    name = getattr(x, 'name', None)
    if isinstance(name, str):        # enums such as TaskState
        return name
    return ADDR.sub('#', repr(x))[:120]


def digest(ctx):
    log = [[k, a, list(pc), t if t != float('inf') else 'inf', canon(d)] for (k, a, pc, t, d) in ctx.log]
    trace = [[u, t if t != float('inf') else 'inf', n, s] for (u, t, n, s) in ctx.trace]
    out = canon(ctx.outcome) if ctx.outcome is not None else None
    blob = json.dumps([log, trace, out, [str(f) for f in ctx.findings]], sort_keys=False, default=str)
    return hashlib.sha1(ADDR.sub('#', blob).encode()).hexdigest()[:16], blob
