"""vk - bounded exhaustive exploration of the real usim implementation (see /verif/DESIGN.md)."""
