"""Seam self-test: a hand-written three-activity program must be observed exactly as expected,
and the interpreted form of the same program must schedule identically (observation-free DSL)."""
import usim
from usim import time, Scope, instant
from .kernel import install, CURRENT, Ctx, HarnessError
from . import run as vrun


def main():
    vrun.setup_process()
    # 1. hand-written program on the observing loop
    order = []

    async def worker(name, d):
        order.append((name, 'start', time.now))
        await (time + d)
        order.append((name, 'end', time.now))

    async def root():
        async with Scope() as scope:
            scope.do(worker('x', 2))
            scope.do(worker('y', 1))
            await instant
        order.append(('root', 'end', time.now))

    ctx = Ctx()
    CURRENT.append(ctx)
    try:
        usim.run(root(), start=5)
    finally:
        CURRENT.pop()
    expect = [('x', 'start', 5), ('y', 'start', 5), ('y', 'end', 6), ('x', 'end', 7), ('root', 'end', 7)]
    if order != expect:
        raise HarnessError('HARNESS-SEAM-MISSING: hand-written program observed %r' % (order,))
    if not ctx.trace or ctx.findings:
        raise HarnessError('HARNESS-SEAM-MISSING: VLoop did not observe activations (%r, %r)' % (len(ctx.trace), ctx.findings))
    hand = [(t, k) for (_, t, n, k) in ctx.trace]
    # 2. the same program through the interpreter must produce the same activation sequence
    prog = {'start': 5, 'roots': [['r', [['SCOPE', 's', [['DO', 'x', [['D', 2]]], ['DO', 'y', [['D', 1]]], ['INSTANT']]]]]]}
    c2 = vrun.run_one(prog)
    interp = [(t, k) for (_, t, n, k) in c2.trace]
    if hand != interp:
        raise HarnessError('interpreter changes scheduling: %r vs %r' % (hand, interp))
    # 3. determinism: two runs, identical logs
    c3 = vrun.run_one(prog)
    if [r[:4] for r in c2.log] != [r[:4] for r in c3.log]:
        raise HarnessError('two runs of one program differ')
    # 4. fault injection seam: cancel y after activation 3 -> y never ends
    c4 = vrun.run_one(prog, [{'k': 3, 'kind': 'cancel', 'victim': 'y', 'token': 'T'}])
    if not any(r[0] == 'exc' and r[1] == 'y' for r in c4.log):
        raise HarnessError('injected cancel did not reach its victim: %r' % (c4.log,))
    print('selftest ok: %d activations observed, interpreter is observation-free, injection works' % len(hand))
    return 0
