"""Defect 4 (C12): a borrower cancelled while acquiring or releasing leaks the amount."""
import usim
from usim import Scope, time, Resources, instant
out = []
async def borrower(res, hold):
    async with res.borrow(a=3):
        await (time + hold)
async def acquire_case():
    res = Resources(a=4)
    async with Scope() as scope:
        task = scope.do(borrower(res, 5))
        await instant            # borrower took the resources and is postponed inside __aenter__
        task.cancel()
        await (time + 1)
    out.append(('acquire', res.levels.a))
async def release_case():
    res = Resources(a=4)
    async with Scope() as scope:
        task = scope.do(borrower(res, 1))
        await (time + 1)         # we wake up at 1 just before the borrower does
        task.cancel()            # ... so this hits its first break point inside __aexit__
        await (time + 1)
    out.append(('release', res.levels.a))
usim.run(acquire_case())
usim.run(release_case())
assert out == [('acquire', 4), ('release', 4)], out
print('OK')
