"""Defect 1 (C06/C03/C04): 'not started' detected via cr_frame.f_lasti == -1, false on CPython 3.12."""
import usim
from usim import Scope, time, TaskState, TaskCancelled
ran = []
async def payload():
    ran.append('payload code ran')
    await (time + 1)
async def main():
    async with Scope() as scope:
        task = scope.do(payload())
        assert task.status is TaskState.CREATED, task.status
        task.cancel('tok')
        assert task.status is TaskState.CANCELLED, task.status
    assert not ran, ran
usim.run(main())

# closing a child that has not started must not break the loop
async def child():
    ran.append('child ran')
async def main2():
    try:
        async with Scope() as scope:
            scope.do(child())
            raise KeyError('body')
    except KeyError:
        pass
usim.run(main2())
assert not ran, ran
print('OK')
