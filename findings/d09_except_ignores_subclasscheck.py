"""Known finding 9 (C17): the except clause ignores MetaConcurrent.__subclasscheck__ (CPython matches by real MRO)."""
from usim import Concurrent
exc = Concurrent(KeyError('k'))
assert isinstance(exc, Concurrent[LookupError]) and issubclass(type(exc), Concurrent[LookupError])
try:
    try:
        raise exc
    except Concurrent[LookupError]:
        caught = True
except BaseException:
    caught = False
assert caught, 'except Concurrent[LookupError] did not catch Concurrent(KeyError())'
print('OK')
