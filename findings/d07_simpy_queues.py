"""Defect 7 (C19): (a) PriorityResource serves FIFO after its first queued request is served
(queue rebound to a list slice); (b) FilterStore: a head request whose filter matches nothing
blocks later requests whose filter matches."""
from usim.py import Environment
from usim.py.resources.resource import PriorityResource
from usim.py.resources.store import FilterStore

order = []
def user(env, res, name, prio, hold):
    with res.request(priority=prio) as req:
        yield req
        order.append(name)
        yield env.timeout(hold)
def spawn(env, res):
    env.process(user(env, res, 'a', 0, 1))      # gets it at once
    yield env.timeout(0.1)
    env.process(user(env, res, 'b', 5, 1))      # queued, worst priority
    yield env.timeout(0.1)
    env.process(user(env, res, 'c', 1, 1))      # queued
    yield env.timeout(1.5)                      # a released, c served: queue was re-bound
    env.process(user(env, res, 'd', 2, 1))      # must overtake b
env = Environment()
res = PriorityResource(env, capacity=1)
env.process(spawn(env, res))
env.run()
assert order == ['a', 'c', 'd', 'b'], order

got = []
def getter(env, store, name, flt):
    item = yield store.get(flt)
    got.append((name, item, env.now))
def putter(env, store):
    yield env.timeout(1)
    yield store.put(2)
env = Environment()
store = FilterStore(env)
env.process(getter(env, store, 'wants1', lambda i: i == 1))
env.process(getter(env, store, 'wants2', lambda i: i == 2))
env.process(putter(env, store))
env.run(until=5)
assert got == [('wants2', 2, 1)], got
print('OK')
