"""Finding 15 (C18): after env.run(until=t) the clock of the environment reads the date of a later, abandoned
timeout instead of t (the loop advances its clock through time slots that only hold revoked activations)."""
from usim.py import Environment
def proc(env):
    yield env.timeout(7)
env = Environment()
env.process(proc(env))
env.run(until=3)
assert env.now == 3, env.now
env = Environment()
env.process(proc(env))
ev = env.timeout(1, 'x')
assert env.run(until=ev) == 'x'
assert env.now == 1, env.now
print('OK')
