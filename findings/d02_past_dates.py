"""Defect 2 (C07/C03/C01): until()/connectives on dates that are now or past."""
import usim, sys, signal
from usim import Scope, time, until, Flag, eternity
signal.alarm(20)
out = []
async def a1():
    await (time + 5)
    async with until(time >= 3):      # already holds on entry: leave at next suspension
        await eternity
    out.append(('ge-past', time.now))
    async with until(time >= 5):      # holds now
        await eternity
    out.append(('ge-now', time.now))
    async with until(time == 5):      # holds now
        await eternity
    out.append(('eq-now', time.now))
usim.run(a1())
assert out == [('ge-past', 5), ('ge-now', 5), ('eq-now', 5)], out

# until(time == past): the moment can no longer fire; body completes normally
out.clear()
async def a2():
    await (time + 5)
    async with until(time == 3):
        await (time + 2)
        out.append(('body-done', time.now))
    out.append(('left', time.now))
usim.run(a2())
assert out == [('body-done', 7), ('left', 7)], out

# run(till=start)
out.clear()
async def a3():
    out.append('started')
    await (time + 1)
    out.append('late')
usim.run(a3(), start=4, till=4)
assert 'late' not in out, out

# (time == past) & flag: never true, must not spin
out.clear()
async def setter(flag):
    await (time + 6)
    await flag.set()
    out.append(('set', time.now))
async def waiter(flag):
    await (time + 5.5)
    await ((time == 5) & flag)
    out.append('woke')
async def a4():
    flag = Flag()
    async with Scope() as scope:
        scope.do(setter(flag))
        scope.do(waiter(flag), volatile=True)
usim.run(a4())
assert out == [('set', 6)], out
print('OK')
