"""Defect 18 (C02): the outcome of Tracked.set() depended on whether the cyclic garbage collector had run.

A comparison that was awaited and woken is part of a reference cycle (interrupt -> comparison, interrupt -> traceback ->
frames -> interrupt) and stays registered with its Tracked value until the collector happens to run - which depends on
unrelated allocations. Tracked.set() evaluated every registered comparison, so setting the value to something the
abandoned comparison cannot be evaluated for raised TypeError, or not.
Prints OK when both runs behave the same."""
import gc
from usim import run, Scope, time, Tracked

out = []


async def main(collect):
    g = Tracked(0)

    async def waiter():
        await (g > 30)
    async with Scope() as s:
        s.do(waiter())
        await (time + 1)
        await g.set(40)
        await (time + 1)
        if collect:
            gc.collect()
        try:
            await g.set(None)
            out.append('set ok')
        except TypeError as e:
            out.append('TypeError')

gc.disable()
run(main(False))
run(main(True))
print(out)
assert out[0] == out[1], 'behaviour depends on garbage collection: %r' % (out,)
print('OK')
