"""Defect 5 (C13): a cancelled Pipe.transfer keeps occupying bandwidth."""
import usim
from usim import Scope, time, Pipe
out = []
async def main():
    pipe = Pipe(throughput=2)
    async with Scope() as scope:
        victim = scope.do(pipe.transfer(total=100, throughput=2))
        await (time + 1)
        victim.cancel()
        await (time + 1)
        start = time.now
        await pipe.transfer(total=10, throughput=2)   # alone on the pipe: 5 time units
        out.append(time.now - start)
usim.run(main())
assert out == [5], out
print('OK')
