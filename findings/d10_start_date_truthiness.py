"""Defect 10 (C01): Task tests its start date by truthiness: at=0 with a negative clock starts at once."""
import usim
from usim import Scope, time
seen = []
async def payload():
    seen.append(time.now)
async def main():
    async with Scope() as scope:
        scope.do(payload(), at=0)
usim.run(main(), start=-2)
assert seen == [0], seen
print('OK')
