"""Defect 16 (C17): matching a failure without children against a specialised handler raises TypeError
instead of answering False: isinstance(Concurrent(), Concurrent[KeyError])."""
from usim import Concurrent
bare = Concurrent()
assert isinstance(bare, Concurrent)
assert not isinstance(bare, Concurrent[KeyError])
assert not issubclass(Concurrent, Concurrent[KeyError, ...])
assert issubclass(Concurrent[KeyError], Concurrent)
try:
    try:
        raise bare
    except Concurrent[KeyError]:
        caught = 'specialised'
    except Concurrent:
        caught = 'bare'
except TypeError as e:
    caught = 'TypeError: %s' % e
assert caught == 'bare', caught
print('OK')
