"""Known finding 8 (C07): until(a | b) / until(a & b) is only interrupted if the connective already holds on
entry; when it becomes true later nothing notifies the connective's subscribers, so the block runs on."""
import usim
from usim import Scope, time, Flag, until, eternity
out = []
async def main():
    a, b = Flag(), Flag()
    async with Scope() as scope:
        async def setter():
            await (time + 1)
            await a.set()
        scope.do(setter())
        async with until(a | b):
            await (time + 5)
        out.append(time.now)
usim.run(main())
assert out == [1], out
print('OK')
