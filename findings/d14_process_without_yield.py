"""Defect 14 (C18): a Process whose generator ends before its first yield crashes the environment
(RuntimeError: coroutine raised StopIteration) instead of firing as an event with the return value."""
from usim.py import Environment
seen = []
def instant(env):
    seen.append(('instant ran', env.now))
    return 42
    yield
def parent(env):
    value = yield env.process(instant(env))
    seen.append(('child value', value, env.now))
env = Environment()
proc = env.process(parent(env))
env.run()
assert seen == [('instant ran', 0), ('child value', 42, 0)], seen
print('OK')
