"""Known finding 12 (C16, C03): a contestant of first() fails while the consumer is suspended in its loop body:
the raw internal CancelScope signal of first()'s scope surfaces in the consumer instead of usim.Concurrent."""
import usim
from usim import first, time, Scope
log=[]
async def act(d, name, fail=False):
    await (time + d)
    if fail: raise KeyError(name)
    return name
async def main():
    try:
        async for r in first(act(1,'a'), act(2,'b', True), act(5,'c'), count=3):
            log.append(('got', r, time.now))
            await (time + 3)     # slow consumer: b fails while we are in the body
            log.append(('body done', time.now))
    except BaseException as e:
        log.append(('exc', type(e).__name__, repr(e)[:80], time.now))
    log.append(('after', time.now))
usim.run(main())
print(log)
assert log[1][0] == 'exc' and log[1][1].startswith('Concurrent'), log
print('OK')
