"""Defect 11 (C08): awaiting a connective that contains another connective is missed: nothing ever
notifies the waiters of the inner connective, so `await ((a | b) & c)` sleeps on although it holds."""
import usim
from usim import Scope, time, Flag
out = []
async def waiter(cond, name):
    await cond
    out.append((name, time.now))
async def main():
    a, b, c = Flag(), Flag(), Flag()
    async with Scope() as scope:
        scope.do(waiter((a | b) & c, 'or-in-and'), volatile=True)
        scope.do(waiter((a & b) | c, 'and-in-or'), volatile=True)
        await (time + 1)
        await c.set()          # and-in-or holds now (time 1)
        await (time + 1)
        await a.set()          # or-in-and holds now (time 2)
        await (time + 3)
usim.run(main())
assert sorted(out) == [('and-in-or', 1), ('or-in-and', 2)], out

out.clear()
async def main2():
    a, b, c = Flag(), Flag(), Flag()
    async with Scope() as scope:
        scope.do(waiter((a & b) | c, 'and-in-or'), volatile=True)
        await (time + 1)
        await a.set()
        await b.set()          # (a & b) holds now (time 1), c never
        await (time + 3)
usim.run(main2())
assert out == [('and-in-or', 1)], out
print('OK')
