"""Defect 3 (C02): Tracked._listeners is a WeakSet -> wake order of waiters on different
comparisons of one tracked value depends on object addresses (differs between processes)."""
import subprocess, sys, os
PROG = r'''
import sys
junk = [bytearray(int(sys.argv[1]) * 37 + i) for i in range(int(sys.argv[1]) * 11)]
import usim
from usim import Scope, time, Tracked
order = []
async def waiter(i, cond):
    await cond
    order.append(i)
async def main():
    x = Tracked(0)
    async with Scope() as scope:
        conds = []
        for i in range(6):
            pad = [object() for _ in range(int(sys.argv[1]) * (i + 1))]
            conds.append(x >= 1 + 0 * i if i % 2 else x > 0)
        for i, c in enumerate(conds):
            scope.do(waiter(i, c))
        await (time + 1)
        await x.set(1)
usim.run(main())
print(order)
'''
outs = set()
for k in range(8):
    r = subprocess.run([sys.executable, '-c', PROG, str(k)], capture_output=True, text=True,
                       env=dict(os.environ, PYTHONHASHSEED=str(k)))
    outs.add(r.stdout.strip())
print(sorted(outs))
assert outs == {'[0, 1, 2, 3, 4, 5]'}, outs
print('OK')
