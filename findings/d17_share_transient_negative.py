"""d17: the share of a borrow block that is left by an interrupt while a nested borrow from it is still being handed back
shows a NEGATIVE level for a part of that time step (observable by any activity holding a reference to the share)."""
import usim
from usim import Capacities, Flag, Scope, until, instant, time

seen = []


async def user(res, flag, shares):
    async with until(flag):
        async with res.borrow(a=2) as share:
            shares.append(share)
            async with share.borrow(a=1):
                await instant
                await instant
                await instant


async def observer(shares):
    for _ in range(12):
        await instant
        if shares:
            seen.append(shares[0].levels.a)


async def attacker(flag):
    await instant
    await instant
    await flag.set()


async def main():
    res, flag, shares = Capacities(a=2), Flag(), []
    async with Scope() as scope:
        scope.do(user(res, flag, shares))
        scope.do(observer(shares))
        scope.do(attacker(flag))
    assert res.levels.a == 2, res.levels
    assert shares[0].levels.a == 0, shares[0].levels

usim.run(main())
print('levels of the share seen by a bystander during time step 0:', seen)
assert min(seen) >= 0, 'the share had a negative level: %r' % (seen,)
print('OK')
