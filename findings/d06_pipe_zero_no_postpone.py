"""Defect 6 (C20): Pipe.transfer(total=0) completes without letting other activities run."""
import usim
from usim import Scope, time, Pipe, instant
log = []
async def other():
    log.append('other ran')
async def main():
    pipe = Pipe(throughput=2)
    async with Scope() as scope:
        scope.do(other())
        await pipe.transfer(total=0)
        log.append('transfer done')
usim.run(main())
assert log == ['other ran', 'transfer done'], log
print('OK')
