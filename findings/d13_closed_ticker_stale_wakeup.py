"""Known finding 13 (C03): a task that is closed while it waits inside `async for ... in it` where `it = interval()/delay()`
is ALSO referenced from elsewhere (a variable of another frame), so that it is not finalised together with the task, leaves the
wake-up of the suspended async generator scheduled (on CPython 3.12 closing a coroutine does not run the finally
blocks of an async generator it is iterating); when the simulation reaches that date the loop throws the stale
wake-up into the closed activity: RuntimeError('cannot reuse already awaited coroutine') escapes usim.run()."""
import usim
from usim import time, Scope, interval, delay
ticks = []
async def clock(it):
    async for now in it:
        ticks.append(now)
async def main(it):
    async with Scope() as scope:
        scope.do(clock(it), volatile=True)
        await (time + 25)
    await (time + 20)           # the simulation goes on past the ticker's next date
for make in (lambda: interval(10), lambda: delay(10)):
    ticks.clear()
    usim.run(main(make()))
    assert ticks == [10, 20], ticks
print('OK')
